/-
Bridge between the in-process metric model (`Model/Metrics.lean`, property C01) and the registry model: a metric
object of one of the six built-in classes seen as a registry `Collector`, and the fact that every sample name its
`collect()` emits is among the names `_get_names` records for its `describe()` family.

`Model.Metrics.metricSamples` builds the samples exactly as `_samples` / `_multi_samples` / `_child_samples` do but
leaves the `_created` samples out (they are emitted by Counter, Summary and Histogram when
`PROMETHEUS_DISABLE_CREATED_SERIES` is not set); the bridge takes that switch as the parameter `created` and adds one
`<name>_created` sample per child, so the cover is shown with and without them.
-/
import PromVerif.Model.Metrics
import PromVerif.Lemmas.RegistryCollect

namespace PromVerif.Model.Registry
open PromVerif.Spec.Registry

variable {V : Type} [Metrics.Val V]

/-- `cls._type` of the six classes -/
def kindType : Metrics.Kind V → MType
  | .counter => .counter
  | .gauge => .gauge
  | .summary => .summary
  | .histogram _ => .histogram
  | .info => .info
  | .enum _ => .stateset

/-- the classes whose `_child_samples` appends a `_created` sample when created series are enabled -/
def hasCreated : Metrics.Kind V → Bool
  | .counter => true
  | .summary => true
  | .histogram _ => true
  | _ => false

/-- number of `_child_samples` calls of one `collect()`: the children of a labelled parent, else the metric itself -/
def childCount (m : Metrics.Metric V) : Nat :=
  if !m.decl.labelnames.isEmpty then m.children.length else m.single.toList.length

def createdSuffix : List Char := ['_', 'c', 'r', 'e', 'a', 't', 'e', 'd']

/-- the sample names of `metric.collect()[0].samples` -/
def emittedNames (created : Bool) (m : Metrics.Metric V) : List Name :=
  (Metrics.metricSamples m).map (fun s => s.name) ++
    (if created && hasCreated m.decl.kind then List.replicate (childCount m) (m.decl.name ++ createdSuffix) else [])

/-- a built-in metric object as a registry collector: `describe()` = `[Metric(name, documentation, type, unit)]`
without samples, `collect()` = the same family with the samples (payloads opaque, numbered) -/
def metricCollector (id : Nat) (help unit : List Char) (created : Bool) (m : Metrics.Metric V) : Collector :=
  { id := id
    describe := some [(m.decl.name, kindType m.decl.kind)]
    families := [{ name := m.decl.name, typ := kindType m.decl.kind, help := help, unit := unit
                   samples := (emittedNames created m).zipIdx.map (fun ni => ⟨ni.1, .idx ni.2⟩) }] }

/-- the suffixes `_child_samples` of a class uses -/
def kindSuffixes : Metrics.Kind V → List (List Char)
  | .counter => [['_', 't', 'o', 't', 'a', 'l']]
  | .gauge => [[]]
  | .summary => [['_', 'c', 'o', 'u', 'n', 't'], ['_', 's', 'u', 'm']]
  | .histogram _ => [['_', 'b', 'u', 'c', 'k', 'e', 't'], ['_', 'c', 'o', 'u', 'n', 't'], ['_', 's', 'u', 'm']]
  | .info => [['_', 'i', 'n', 'f', 'o']]
  | .enum _ => [[]]

private theorem enumSamples_name (name : List Char) (cur : Nat) (states : List (List Char)) :
    ∀ (i : Nat) (s : Metrics.Sample V), s ∈ Metrics.enumSamples name cur i states → s.name = [] := by
  induction states with
  | nil => intro i s h; simp [Metrics.enumSamples] at h
  | cons st rest ih =>
    intro i s h
    simp only [Metrics.enumSamples, List.mem_cons] at h
    rcases h with rfl | h
    · rfl
    · exact ih _ _ h

private theorem lit_total : "_total".toList = ['_', 't', 'o', 't', 'a', 'l'] := by decide
private theorem lit_count : "_count".toList = ['_', 'c', 'o', 'u', 'n', 't'] := by decide
private theorem lit_sum : "_sum".toList = ['_', 's', 'u', 'm'] := by decide
private theorem lit_bucket : "_bucket".toList = ['_', 'b', 'u', 'c', 'k', 'e', 't'] := by decide
private theorem lit_info : "_info".toList = ['_', 'i', 'n', 'f', 'o'] := by decide

/-- every `(suffix, labels, value)` of `_child_samples` uses a suffix of the class -/
theorem childSamples_suffix (d : Metrics.Decl V) (c : Metrics.Child V) (s : Metrics.Sample V)
    (h : s ∈ Metrics.childSamples d c) : s.name ∈ kindSuffixes d.kind := by
  unfold Metrics.childSamples at h
  cases hk : d.kind with
  | counter =>
    simp only [hk, List.mem_singleton] at h
    subst h; simp [kindSuffixes, lit_total]
  | gauge =>
    simp only [hk, List.mem_singleton] at h
    subst h; simp [kindSuffixes]
  | summary =>
    simp only [hk, List.mem_cons, List.not_mem_nil, or_false] at h
    rcases h with rfl | rfl <;> simp [kindSuffixes, lit_count, lit_sum]
  | histogram bs =>
    simp only [hk, List.mem_append, List.mem_map, List.mem_singleton] at h
    rcases h with (⟨_, _, rfl⟩ | rfl) | h
    · simp [kindSuffixes, lit_bucket]
    · simp [kindSuffixes, lit_count]
    · split at h
      · simp only [List.mem_singleton] at h; subst h; simp [kindSuffixes, lit_sum]
      · simp at h
  | info =>
    simp only [hk, List.mem_singleton] at h
    subst h; simp [kindSuffixes, lit_info]
  | enum states =>
    simp only [hk] at h
    have := enumSamples_name d.name c.state states 0 s h
    simp [kindSuffixes, this]

/-- every sample name of `_samples()` is the metric name plus a suffix of the class -/
theorem metricSamples_name (m : Metrics.Metric V) (s : Metrics.Sample V) (h : s ∈ Metrics.metricSamples m) :
    ∃ suf, suf ∈ kindSuffixes m.decl.kind ∧ s.name = m.decl.name ++ suf := by
  unfold Metrics.metricSamples at h
  simp only [List.mem_map] at h
  obtain ⟨r, hr, rfl⟩ := h
  refine ⟨r.name, ?_, rfl⟩
  split at hr
  · simp only [List.mem_flatMap, List.mem_map] at hr
    obtain ⟨kc, _, s0, hs0, rfl⟩ := hr
    show s0.name ∈ _
    exact childSamples_suffix _ _ _ hs0
  · split at hr
    · exact childSamples_suffix _ _ _ hr
    · simp at hr

omit [Metrics.Val V] in
/-- a suffix a class emits is the empty one or one its family type exposes -/
theorem kindSuffixes_claimed (k : Metrics.Kind V) (suf : List Char) (h : suf ∈ kindSuffixes k) :
    suf = [] ∨ suf ∈ suffixes (kindType k) := by
  cases k <;> simp only [kindSuffixes, List.mem_cons, List.not_mem_nil, or_false] at h
  · subst h; right; simp [kindType, suffixes]
  · left; exact h
  · rcases h with rfl | rfl <;> (right; simp [kindType, suffixes])
  · rcases h with rfl | rfl | rfl <;> (right; simp [kindType, suffixes])
  · subst h; right; simp [kindType, suffixes]
  · left; exact h

omit [Metrics.Val V] in
theorem created_claimed (k : Metrics.Kind V) (h : hasCreated k = true) : createdSuffix ∈ suffixes (kindType k) := by
  cases k <;> simp [hasCreated] at h <;> simp [kindType, suffixes, createdSuffix]

/-- every emitted sample name is among the names the statement says the described family claims -/
theorem emittedNames_claimed (created : Bool) (m : Metrics.Metric V) (n : Name) (h : n ∈ emittedNames created m) :
    n ∈ familyClaims m.decl.name (kindType m.decl.kind) := by
  unfold emittedNames at h
  simp only [familyClaims, List.mem_cons, List.mem_map]
  rcases List.mem_append.1 h with h | h
  · obtain ⟨s, hs, rfl⟩ := List.mem_map.1 h
    obtain ⟨suf, hsuf, hn⟩ := metricSamples_name m s hs
    rcases kindSuffixes_claimed _ _ hsuf with rfl | h2
    · left; simpa using hn
    · right; exact ⟨suf, h2, hn.symm⟩
  · split at h
    · next hc =>
      simp only [Bool.and_eq_true] at hc
      have := List.eq_of_mem_replicate h
      right
      exact ⟨createdSuffix, created_claimed _ hc.2, this.symm⟩
    · simp at h

/-- a collector all of whose sample names are among the names the registry records for it -/
def SamplesCovered (autoDescribe : Bool) (c : Collector) : Prop :=
  ∀ f, f ∈ c.families → ∀ smp, smp ∈ f.samples → smp.name ∈ getNames autoDescribe c

theorem metricCollector_covered (ad : Bool) (id : Nat) (help unit : List Char) (created : Bool) (m : Metrics.Metric V) :
    SamplesCovered ad (metricCollector id help unit created m) := by
  intro f hf smp hs
  simp only [metricCollector, List.mem_singleton] at hf
  subst hf
  simp only [List.mem_map] at hs
  obtain ⟨⟨n, i⟩, hni, rfl⟩ := hs
  have hn : n ∈ emittedNames created m := by
    have := List.mem_zipIdx hni
    rw [this.2.2]
    exact List.getElem_mem _
  rw [mem_getNames_iff]
  simp only [claims, described, metricCollector, List.flatMap_cons, List.flatMap_nil, List.append_nil]
  exact emittedNames_claimed created m n hn

/-- if every registered collector is covered, the registry satisfies `ClaimsCover` -/
theorem claimsCover_of_covered {s : State} (hi : Inv s)
    (h : ∀ c ns, (c, ns) ∈ s.collectorToNames → SamplesCovered s.autoDescribe c) : ClaimsCover s := by
  intro c ns hm f hf smp hs
  rw [hi.stored c ns hm]
  exact h c ns hm f hf smp hs

/-! ### registered collectors come from `register` calls -/

theorem step_autoDescribe (s : State) (op : Op) : (step s op).1.autoDescribe = s.autoDescribe := by
  cases op with
  | register c =>
    simp only [step, register_eq, registerAtomic]; split <;> rfl
  | unregister c =>
    simp only [step, unregister_eq, unregisterOf]
    split
    · rfl
    · split <;> rfl
  | setTargetInfo l =>
    simp only [step, setTargetInfo_eq]
    split
    · split <;> rfl
    · split <;> rfl

theorem run_autoDescribe (ops : List Op) : ∀ s : State, (run s ops).1.autoDescribe = s.autoDescribe := by
  induction ops with
  | nil => intro s; rfl
  | cons op ops ih => intro s; simp only [run]; rw [ih, step_autoDescribe]

theorem init_autoDescribe (ad : Bool) (ti : Option Labels) : (init ad ti).autoDescribe = ad :=
  step_autoDescribe ⟨[], [], ad, some []⟩ (.setTargetInfo ti)

theorem mem_regStep {regs : List Collector} {op : Op} {b : Bool} {c : Collector} (h : c ∈ regStep regs op b) :
    c ∈ regs ∨ op = .register c := by
  cases op with
  | register c' =>
    cases b
    · simp only [regStep] at h
      split at h
      · exact Or.inl h
      · rcases List.mem_append.1 h with h | h
        · exact Or.inl h
        · simp at h; subst h; exact Or.inr rfl
    · exact Or.inl h
  | unregister c' =>
    cases b
    · exact Or.inl (List.mem_filter.1 h).1
    · exact Or.inl h
  | setTargetInfo l => cases b <;> exact Or.inl h

theorem mem_regsAfter (ops : List Op) : ∀ (regs : List Collector) (outs : List (Option PromVerif.Py.PyErr)) (c : Collector),
    c ∈ regsAfter regs ops outs → c ∈ regs ∨ Op.register c ∈ ops := by
  induction ops with
  | nil => intro regs outs c h; exact Or.inl h
  | cons op ops ih =>
    intro regs outs c h
    cases outs with
    | nil => exact Or.inl h
    | cons o outs =>
      rcases ih _ _ _ h with h | h
      · rcases mem_regStep h with h | h
        · exact Or.inl h
        · exact Or.inr (by simp [h])
      · exact Or.inr (List.mem_cons_of_mem _ h)

/-- a collector registered after a history was the argument of one of its `register` calls -/
theorem registered_was_registered (ad : Bool) (ti : Option Labels) (ops : List Op) {c : Collector} {ns : List Name}
    (h : (c, ns) ∈ (run (init ad ti) ops).1.collectorToNames) : Op.register c ∈ ops := by
  have hk : c ∈ (run (init ad ti) ops).1.collectorToNames.map Prod.fst := List.mem_map.2 ⟨_, h, rfl⟩
  rw [(run_regs ops (init ad ti)).1, init_c2n] at hk
  rcases mem_regsAfter ops _ _ c hk with h | h
  · simp at h
  · exact h

end PromVerif.Model.Registry
