/-
C11: cut points — the states a file goes through between consecutive effects — and what they look like during growth and
`_init_value`.
-/
import PromVerif.Lemmas.MmapStep
namespace PromVerif.Lemmas.Mmap
open PromVerif.Py PromVerif.Model.MmapDict PromVerif.Generated.Mmap
open PromVerif.Spec.MmapDict (Store PrefixFrom)

/-! ## cut points: every file-system state between two consecutive effects -/

/-- all states the file goes through while the effects are applied one by one (first = before, last = after) -/
def states (f : Option Bytes) : List Effect → List (Option Bytes)
  | [] => [f]
  | e :: es => f :: states (applyEffect f e) es

theorem applyEffects_append (f : Option Bytes) (a b : List Effect) :
    applyEffects f (a ++ b) = applyEffects (applyEffects f a) b := by simp [applyEffects]

theorem applyEffects_mem_states (f : Option Bytes) (tr : List Effect) : applyEffects f tr ∈ states f tr := by
  induction tr generalizing f with
  | nil => simp [states, applyEffects]
  | cons e tr ih => simp only [states, applyEffects, List.foldl_cons, List.mem_cons]; right; exact ih _

theorem mem_states_append {s f a b} : s ∈ states f (a ++ b) ↔ s ∈ states f a ∨ s ∈ states (applyEffects f a) b := by
  induction a generalizing f with
  | nil =>
    simp only [List.nil_append, states, List.mem_singleton, applyEffects, List.foldl_nil]
    constructor
    · intro h; exact Or.inr h
    · rintro (h | h)
      · subst h; cases b <;> simp [states]
      · exact h
  | cons e a ih =>
    simp only [List.cons_append, states, List.mem_cons, applyEffects, List.foldl_cons] at ih ⊢
    rw [ih]
    simp [or_assoc]

/-- the cut after the first `k` effects is one of the states -/
theorem cut_mem_states (f : Option Bytes) (tr : List Effect) (k : Nat) : applyEffects f (tr.take k) ∈ states f tr := by
  have := mem_states_append (s := applyEffects f (tr.take k)) (f := f) (a := tr.take k) (b := tr.drop k)
  rw [List.take_append_drop] at this
  exact this.mpr (Or.inl (applyEffects_mem_states _ _))

/-- a file a reader or a new writer can be handed: header + entries with distinct keys + anything -/
def CutRep (file : Bytes) (es : List Entry) : Prop := ∃ u tl, FileRep file u es tl ∧ (keys es).Nodup

theorem FileRep.append_zeros {file u es tl} (h : FileRep file u es tl) (z : Nat) :
    FileRep (file ++ zeros z) u es (tl ++ zeros z) :=
  ⟨by rw [h.file_eq]; simp, h.used_eq, h.used_lt⟩

theorem states_truncs : ∀ (cs : List Nat) (f : Bytes), List.Pairwise (· ≤ ·) (f.length :: cs) →
    ∀ s ∈ states (some f) (cs.map Effect.truncate), ∃ z, s = some (f ++ zeros z) := by
  intro cs
  induction cs with
  | nil => intro f _ s hs; simp [states] at hs; exact ⟨0, by simp [hs, zeros]⟩
  | cons c cs ih =>
    intro f hp s hs
    rw [List.pairwise_cons] at hp
    have hc : f.length ≤ c := hp.1 c (by simp)
    simp only [List.map_cons, states, List.mem_cons, applyEffect, Option.map_some] at hs
    rcases hs with rfl | hs
    · exact ⟨0, by simp [zeros]⟩
    · rw [truncate_ge f c hc] at hs
      obtain ⟨z, hz⟩ := ih (f ++ zeros (c - f.length)) (by rw [List.length_append, zeros_length, show f.length + (c - f.length) = c by omega]; exact hp.2) s hs
      exact ⟨c - f.length + z, by rw [hz, List.append_assoc, zeros_append]⟩

theorem applyEffects_truncs (cs : List Nat) (f : Bytes) (hp : List.Pairwise (· ≤ ·) (f.length :: cs)) :
    applyEffects (some f) (cs.map Effect.truncate) = some (f ++ zeros (lastCap f.length cs - f.length)) := by
  rw [applyEffects_truncates, foldl_truncate_chain cs f hp]

/-- the states of the file during `_init_value(k)`: old state (while growing, and with the entry written but not yet
published), then the new key present at (0, 0) -/
theorem initTrace_states {d es tail} (h : Rep d es tail) (k : Key) (hk : k ∉ keys es) (caps : List Nat)
    (hb : d.used + entryLen k < 2147483648) (hpw : List.Pairwise (· ≤ ·) (d.capacity :: caps))
    (hneed : d.used + entryLen k ≤ lastCap d.capacity caps) :
    applyEffects (some d.file) (initTrace d.used k caps) = some (afterInit d es tail k (lastCap d.capacity caps)).file ∧
    ∀ s ∈ states (some d.file) (initTrace d.used k caps), ∃ file, s = some file ∧
      (CutRep file es ∨ CutRep file (es ++ [fresh k])) := by
  have hcap := h.cap
  have hpw' : List.Pairwise (· ≤ ·) (d.file.length :: caps) := by rw [← hcap]; exact hpw
  have hge := le_lastCap _ _ hpw
  have hce := h.cap_eq
  have hst := init_value_stages h.file k (lastCap d.capacity caps - d.capacity) (by omega)
  have hnd : (keys (es ++ [fresh k])).Nodup := (afterInit_rep h k hk _ hb hneed hge).nodup
  have h1 := applyEffects_truncs caps d.file hpw'
  rw [← hcap] at h1
  have hfinal : applyEffects (some (d.file ++ zeros (lastCap d.capacity caps - d.capacity)))
      [.sliceWrite d.used (encEntry (fresh k)), .sliceWrite 0 (le 4 (d.used + entryLen k))]
      = some (afterInit d es tail k (lastCap d.capacity caps)).file := by
    simp [applyEffects, applyEffect, hst.1, hst.2, afterInit]
  constructor
  · unfold initTrace; rw [applyEffects_append, h1, hfinal]
  · intro s hs
    unfold initTrace at hs
    rcases mem_states_append.mp hs with hs | hs
    · obtain ⟨z, rfl⟩ := states_truncs caps d.file hpw' s hs
      exact ⟨_, rfl, Or.inl ⟨_, _, h.file.append_zeros z, h.nodup⟩⟩
    · rw [h1] at hs
      simp only [states, applyEffect, Option.map_some, hst.1, hst.2, List.mem_cons, List.not_mem_nil, or_false] at hs
      rcases hs with rfl | rfl | rfl
      · exact ⟨_, rfl, Or.inl ⟨_, _, h.file.append_zeros _, h.nodup⟩⟩
      · exact ⟨_, rfl, Or.inl ⟨d.used, _, ⟨rfl, h.file.used_eq, h.file.used_lt⟩, h.nodup⟩⟩
      · exact ⟨_, rfl, Or.inr ⟨_, _, initFile_rep h.file k _ hb, hnd⟩⟩

end PromVerif.Lemmas.Mmap
