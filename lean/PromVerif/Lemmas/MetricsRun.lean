/-
C01 helper lemmas, part 3: from one metric to the registry and from one step to a whole run.
`RegAbs ds r hs`: the registry `r` is, metric by metric, the replay of the histories `hs` of accepted calls.
-/
import PromVerif.Lemmas.MetricsAbs

namespace PromVerif.Lemmas.Metrics
open PromVerif.Py PromVerif.Model.Metrics PromVerif.Generated.Metrics
open PromVerif.Spec.Metrics (Hist keyOf appendAt recordOn modifyNth record history)

variable {V : Type} [Val V]

/-! ### list plumbing -/

/-- pointwise relation of two lists of equal length -/
inductive Forall2 {α β : Type} (P : α → β → Prop) : List α → List β → Prop
  | nil : Forall2 P [] []
  | cons {a b l₁ l₂} : P a b → Forall2 P l₁ l₂ → Forall2 P (a :: l₁) (b :: l₂)


theorem zipWith_getElem? {α β γ : Type} (g : α → β → γ) :
    ∀ (ds : List α) (hs : List β) (i : Nat) (d : α) (h : β), ds[i]? = some d → hs[i]? = some h →
      (List.zipWith g ds hs)[i]? = some (g d h)
  | [], _, _, _, _, hd, _ => by simp at hd
  | _ :: _, [], _, _, _, _, hh => by simp at hh
  | a :: ds, b :: hs, 0, d, h, hd, hh => by simp at hd hh; simp [hd, hh]
  | a :: ds, b :: hs, i + 1, d, h, hd, hh => by
    simp at hd hh
    simpa using zipWith_getElem? g ds hs i d h hd hh

theorem zipWith_getElem?_none {α β γ : Type} (g : α → β → γ) :
    ∀ (ds : List α) (hs : List β) (i : Nat), ds[i]? = none → (List.zipWith g ds hs)[i]? = none
  | [], _, _, _ => by simp
  | _ :: _, [], _, _ => by simp
  | a :: ds, b :: hs, 0, hd => by simp at hd
  | a :: ds, b :: hs, i + 1, hd => by
    have hd' : ds[i]? = none := by simpa using hd
    simpa using zipWith_getElem?_none g ds hs i hd'

theorem zipWith_set {α β γ : Type} (g : α → β → γ) (f : β → β) :
    ∀ (ds : List α) (hs : List β) (i : Nat) (d : α) (h : β), ds[i]? = some d → hs[i]? = some h →
      (List.zipWith g ds hs).set i (g d (f h)) = List.zipWith g ds (modifyNth f i hs)
  | [], _, _, _, _, hd, _ => by simp at hd
  | _ :: _, [], _, _, _, _, hh => by simp at hh
  | a :: ds, b :: hs, 0, d, h, hd, hh => by simp at hd hh; simp [modifyNth, hd, hh]
  | a :: ds, b :: hs, i + 1, d, h, hd, hh => by
    simp at hd hh
    simp [modifyNth, zipWith_set g f ds hs i d h hd hh]

theorem forall2_getElem? {α β : Type} (P : α → β → Prop) :
    ∀ (ds : List α) (hs : List β) (i : Nat) (d : α), Forall2 P ds hs → ds[i]? = some d →
      ∃ h, hs[i]? = some h ∧ P d h
  | [], _, _, _, _, hd => by simp at hd
  | a :: ds, [], _, _, hall, _ => by cases hall
  | a :: ds, b :: hs, 0, d, hall, hd => by
    cases hall with
    | cons h1 h2 => simp at hd; subst hd; exact ⟨b, by simp, h1⟩
  | a :: ds, b :: hs, i + 1, d, hall, hd => by
    cases hall with
    | cons h1 h2 =>
      simp at hd
      simpa using forall2_getElem? P ds hs i d h2 hd

theorem forall2_modifyNth {α β : Type} (P : α → β → Prop) (f : β → β) :
    ∀ (ds : List α) (hs : List β) (i : Nat) (d : α) (h : β), Forall2 P ds hs → ds[i]? = some d →
      hs[i]? = some h → P d (f h) → Forall2 P ds (modifyNth f i hs)
  | [], _, _, _, _, _, hd, _, _ => by simp at hd
  | a :: ds, [], _, _, _, hall, _, _, _ => by cases hall
  | a :: ds, b :: hs, 0, d, h, hall, hd, hh, hp => by
    cases hall with
    | cons h1 h2 =>
      simp at hd hh; subst hd; subst hh
      exact Forall2.cons hp h2
  | a :: ds, b :: hs, i + 1, d, h, hall, hd, hh, hp => by
    cases hall with
    | cons h1 h2 =>
      simp at hd hh
      exact Forall2.cons h1 (forall2_modifyNth P f ds hs i d h h2 hd hh hp)

theorem set_getElem?_self {α : Type} : ∀ (l : List α) (i : Nat) (a : α), l[i]? = some a → l.set i a = l
  | [], _, _, h => by simp at h
  | x :: l, 0, a, h => by simp at h; simp [h]
  | x :: l, i + 1, a, h => by simp at h; simp [set_getElem?_self l i a h]

/-! ### registry -/

structure RegAbs (ds : List (Decl V)) (r : Reg V) (hs : List (Hist V)) : Prop where
  eq : r = List.zipWith metricOf ds hs
  ok : Forall2 AllOk ds hs

theorem regAbs_fresh (ds : List (Decl V)) : RegAbs ds (Reg.fresh ds) (ds.map (fun _ => Hist.empty)) := by
  constructor
  · induction ds with
    | nil => rfl
    | cons d ds ih =>
      simp only [Reg.fresh, List.map, List.zipWith] at ih ⊢
      rw [← ih, fresh_eq_metricOf]
  · induction ds with
    | nil => exact Forall2.nil
    | cons d ds ih => exact Forall2.cons (allOk_empty d) ih

theorem touchOf_metric (op t : Op V) (h : op.touchOf = some t) : t.metric = op.metric := by
  cases op with
  | call i addr act =>
    cases addr with
    | none => simp [Op.touchOf] at h
    | labels a k => simp [Op.touchOf] at h; subst h; rfl
  | remove i vs => simp [Op.touchOf] at h
  | clear i => simp [Op.touchOf] at h

theorem acceptedM_metric (m : Metric V) (op o : Op V) (h : acceptedM m op = some o) : o.metric = op.metric := by
  unfold acceptedM at h
  split at h
  · simp at h; subst h; rfl
  · split at h
    · next t ht =>
      split at h
      · simp at h; subst h; exact touchOf_metric op t ht
      · simp at h
    · simp at h

theorem step_eq (r : Reg V) (op : Op V) :
    step r op = match r[op.metric]? with
      | none => (r, .raised .keyError)
      | some m => (r.set op.metric (stepM m op).1, (stepM m op).2) := by
  cases hr : r[op.metric]? <;> simp [step, modifyAt, hr]

theorem acceptedOp_eq (r : Reg V) (op : Op V) :
    acceptedOp r op = match r[op.metric]? with
      | none => none
      | some m => acceptedM m op := by
  unfold acceptedOp acceptedM
  cases hr : r[op.metric]? with
  | none =>
    simp only [step_eq, hr]
    cases ht : op.touchOf with
    | none => rfl
    | some t => simp [touchOf_metric op t ht, hr]
  | some m =>
    simp only [step_eq, hr]
    cases ht : op.touchOf with
    | none => rfl
    | some t =>
      simp only [touchOf_metric op t ht, hr]
      cases (stepM m op).2 <;> rfl

/-- the histories after recording what a step accepted -/
def recAll (ds : List (Decl V)) (hs : List (Hist V)) : Option (Op V) → List (Hist V)
  | some o => record ds hs o
  | none => hs

/-- **Abstraction, one registry step.** -/
theorem step_abs (ds : List (Decl V)) (r : Reg V) (hs : List (Hist V)) (op : Op V) (habs : RegAbs ds r hs) :
    RegAbs ds (step r op).1 (recAll ds hs (acceptedOp r op)) := by
  obtain ⟨heq, hok⟩ := habs
  cases hd : ds[op.metric]? with
  | none =>
    have hr : r[op.metric]? = none := by rw [heq]; exact zipWith_getElem?_none _ _ _ _ hd
    simp only [step_eq, acceptedOp_eq, hr, recAll]
    exact ⟨heq, hok⟩
  | some d =>
    obtain ⟨h, hh, hokd⟩ := forall2_getElem? AllOk ds hs op.metric d hok hd
    have hr : r[op.metric]? = some (metricOf d h) := by rw [heq]; exact zipWith_getElem? _ _ _ _ d h hd hh
    obtain ⟨hstep, hok'⟩ := stepM_abs d h op hokd
    simp only [step_eq, acceptedOp_eq, hr]
    rw [hstep]
    cases hacc : acceptedM (metricOf d h) op with
    | none =>
      simp only [recAll, recOpt]
      rw [set_getElem?_self r _ _ hr]
      exact ⟨heq, hok⟩
    | some o =>
      have hm := acceptedM_metric _ _ _ hacc
      rw [hacc] at hok'
      simp only [recAll, record, hm, hd, recOpt] at hok' ⊢
      constructor
      · rw [heq]
        exact zipWith_set metricOf (fun h => recordOn d.labelnames h o) ds hs op.metric d h hd hh
      · exact forall2_modifyNth AllOk (fun h => recordOn d.labelnames h o) ds hs op.metric d h hok hd hh hok'

/-- **Abstraction, whole run**: after any list of calls the registry is the replay of the histories of the accepted
calls. -/
theorem run_abs (ds : List (Decl V)) : ∀ (ops : List (Op V)) (r : Reg V) (hs : List (Hist V)), RegAbs ds r hs →
    RegAbs ds (run r ops).1 ((accepted r ops).foldl (record ds) hs)
  | [], r, hs, habs => by simpa [run, accepted] using habs
  | op :: ops, r, hs, habs => by
    have h1 := step_abs ds r hs op habs
    have h2 := run_abs ds ops (step r op).1 _ h1
    simp only [run, accepted, List.foldl_append]
    cases hacc : acceptedOp r op with
    | none => simpa [hacc, recAll] using h2
    | some o => simpa [hacc, recAll] using h2

theorem run_fresh_abs (ds : List (Decl V)) (ops : List (Op V)) :
    RegAbs ds (run (Reg.fresh ds) ops).1 (history ds (accepted (Reg.fresh ds) ops)) :=
  run_abs ds ops _ _ (regAbs_fresh ds)

end PromVerif.Lemmas.Metrics
