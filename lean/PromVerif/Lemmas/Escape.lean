/-
Escaping lemmas for C03/C05: `_escape` as a per-character map, `_replace_escaping ∘ _escape = id`, the HELP variants,
and what escaped text cannot contain.  The escape chains are the ones re-extracted from the source (`Generated.Expo`).
-/
import PromVerif.Model.TextExpo
import PromVerif.Model.ParseCore
namespace PromVerif.Lemmas.Escape
open PromVerif.Py PromVerif.Model.Escape PromVerif.Model.ParseCore PromVerif.Generated.Expo

/-- what `_escape` does to one character -/
def escChar (c : Char) : Str :=
  if c = '\\' then ['\\', '\\'] else if c = '\n' then ['\\', 'n'] else if c = '"' then ['\\', '"'] else [c]

theorem escape_eq_flatMap (s : Str) : escape s = s.flatMap escChar := by
  unfold escape applyChain escapeChain
  simp only [List.foldl, replaceChar, List.flatMap_assoc]
  congr 1
  funext c
  unfold escChar
  by_cases h1 : c = '\\'
  · subst h1; decide
  · by_cases h2 : c = '\n'
    · subst h2; decide
    · by_cases h3 : c = '"'
      · subst h3; decide
      · simp [h1, h2, h3]

theorem escape_nil : escape [] = [] := by rw [escape_eq_flatMap]; rfl
theorem escape_cons (c : Char) (s : Str) : escape (c :: s) = escChar c ++ escape s := by
  simp [escape_eq_flatMap]
theorem escape_append (a b : Str) : escape (a ++ b) = escape a ++ escape b := by
  simp [escape_eq_flatMap]

theorem rew_nil (tbl) : replaceEscapingWith tbl [] = [] := by
  rw [replaceEscapingWith]
theorem rew_bs (tbl) (c : Char) (rest : Str) : replaceEscapingWith tbl ('\\' :: c :: rest) =
    match tbl.find? (fun p => p.1 == c) with
    | some p => p.2 :: replaceEscapingWith tbl rest
    | none => '\\' :: replaceEscapingWith tbl (c :: rest) := by
  rw [replaceEscapingWith]; rfl
theorem rew_other (tbl) (c : Char) (rest : Str) (h : c ≠ '\\') : replaceEscapingWith tbl (c :: rest) =
    c :: replaceEscapingWith tbl rest := by
  rw [replaceEscapingWith]
  intro _ _ e _; exact absurd e h

theorem replaceEscaping_escChar (c : Char) (t : Str) : replaceEscaping (escChar c ++ t) = c :: replaceEscaping t := by
  unfold replaceEscaping escChar
  by_cases h1 : c = '\\'
  · subst h1; simp only [↓reduceIte, List.cons_append, List.nil_append]; rw [rew_bs]; rfl
  · by_cases h2 : c = '\n'
    · subst h2; simp only [h1, ↓reduceIte, List.cons_append, List.nil_append]; rw [rew_bs]; rfl
    · by_cases h3 : c = '"'
      · subst h3; simp only [h1, h2, ↓reduceIte, List.cons_append, List.nil_append]; rw [rew_bs]; rfl
      · simp only [h1, h2, h3, ↓reduceIte, List.cons_append, List.nil_append]; rw [rew_other _ _ _ h1]

/-- **`_replace_escaping(_escape(s)) == s`** for every string -/
theorem unescape_escape (s : Str) : replaceEscaping (escape s) = s := by
  induction s with
  | nil => rw [escape_nil]; exact rew_nil _
  | cons c s ih => rw [escape_cons, replaceEscaping_escChar, ih]


/-- text without a backslash is left alone by the unescaper -/
theorem replaceEscapingWith_of_no_bs (tbl) (t : Str) (h : '\\' ∉ t) : replaceEscapingWith tbl t = t := by
  induction t with
  | nil => exact rew_nil _
  | cons c t ih =>
    have hc : c ≠ '\\' := fun e => h (by simp [e])
    have ht : '\\' ∉ t := fun e => h (by simp [e])
    rw [rew_other _ _ _ hc, ih ht]

-- HELP escaping ---------------------------------------------------------------------------------------------

/-- what the HELP escaping does to one character -/
def escHelpChar (c : Char) : Str :=
  if c = '\\' then ['\\', '\\'] else if c = '\n' then ['\\', 'n'] else [c]

theorem escapeHelp_eq_flatMap (s : Str) : escapeHelp s = s.flatMap escHelpChar := by
  unfold escapeHelp applyChain helpChain
  simp only [List.foldl, replaceChar, List.flatMap_assoc]
  congr 1
  funext c
  unfold escHelpChar
  by_cases h1 : c = '\\'
  · subst h1; decide
  · by_cases h2 : c = '\n'
    · subst h2; decide
    · simp [h1, h2]

theorem escapeHelpTrailing_eq (s : Str) : escapeHelpTrailing s = escapeHelp s := by
  unfold escapeHelpTrailing escapeHelp helpChainTrailing helpChain; rfl

theorem escapeHelp_nil : escapeHelp [] = [] := by rw [escapeHelp_eq_flatMap]; rfl
theorem escapeHelp_cons (c : Char) (s : Str) : escapeHelp (c :: s) = escHelpChar c ++ escapeHelp s := by
  simp [escapeHelp_eq_flatMap]
theorem escapeHelp_append (a b : Str) : escapeHelp (a ++ b) = escapeHelp a ++ escapeHelp b := by
  simp [escapeHelp_eq_flatMap]

theorem replaceHelpEscaping_escHelpChar (c : Char) (t : Str) :
    replaceHelpEscaping (escHelpChar c ++ t) = c :: replaceHelpEscaping t := by
  unfold replaceHelpEscaping escHelpChar
  by_cases h1 : c = '\\'
  · subst h1; simp only [↓reduceIte, List.cons_append, List.nil_append]; rw [rew_bs]; rfl
  · by_cases h2 : c = '\n'
    · subst h2; simp only [h1, ↓reduceIte, List.cons_append, List.nil_append]; rw [rew_bs]; rfl
    · simp only [h1, h2, ↓reduceIte, List.cons_append, List.nil_append]; rw [rew_other _ _ _ h1]

/-- **`_replace_help_escaping(help_escape(s)) == s`** for every string -/
theorem helpUnescape_helpEscape (s : Str) : replaceHelpEscaping (escapeHelp s) = s := by
  induction s with
  | nil => rw [escapeHelp_nil]; exact rew_nil _
  | cons c s ih => rw [escapeHelp_cons, replaceHelpEscaping_escHelpChar, ih]

-- what escaped text cannot contain ---------------------------------------------------------------------------

theorem newline_not_mem_escChar (c : Char) : '\n' ∉ escChar c := by
  unfold escChar
  by_cases h1 : c = '\\'
  · subst h1; decide
  · by_cases h2 : c = '\n'
    · subst h2; decide
    · by_cases h3 : c = '"'
      · subst h3; decide
      · simp [h1, h2, h3]; exact fun e => h2 e.symm

/-- escaped text never contains a raw line feed -/
theorem newline_not_mem_escape (s : Str) : '\n' ∉ escape s := by
  rw [escape_eq_flatMap]
  intro h
  obtain ⟨c, _, hc⟩ := List.mem_flatMap.mp h
  exact newline_not_mem_escChar c hc

theorem newline_not_mem_escapeHelp (s : Str) : '\n' ∉ escapeHelp s := by
  rw [escapeHelp_eq_flatMap]
  intro h
  obtain ⟨c, _, hc⟩ := List.mem_flatMap.mp h
  unfold escHelpChar at hc
  by_cases h1 : c = '\\'
  · subst h1; simp at hc
  · by_cases h2 : c = '\n'
    · subst h2; simp at hc
    · simp [h1, h2] at hc; exact h2 hc.symm

end PromVerif.Lemmas.Escape
