/-
Lemmas/ConcLock — the lock discipline as an invariant: bracketed (and optionally rank-ordered) continuations keep
"`l` is on thread `i`'s held stack  ↔  `owner l = some i`", which gives mutual exclusion and, with a rank order,
freedom from deadlock.
-/
import PromVerif.Lemmas.ConcStep

set_option linter.unusedSectionVars false

namespace PromVerif.Model.Conc
open PromVerif.Generated.Locks

section
variable {L X U V : Type} [DecidableEq L] [DecidableEq X]

/-- continuation `pc` is well bracketed from the held stack `hs` (every `release` matches the innermost open `acquire`, all
locks released at the end) and every `acquire l` is admitted by `ok hs l` -/
def wf (ok : List L → L → Bool) : List (Micro L X U) → List L → Bool
  | [], hs => hs.isEmpty
  | .acquire l :: r, hs => ok hs l && wf ok r (l :: hs)
  | .release l :: r, hs =>
    match hs with
    | h :: hs' => decide (h = l) && wf ok r hs'
    | [] => false
  | .load _ :: r, hs => wf ok r hs
  | .store _ _ :: r, hs => wf ok r hs
  | .iterBegin _ :: r, hs => wf ok r hs
  | .iterEnd _ :: r, hs => wf ok r hs
  | .call _ _ :: r, hs => wf ok r hs
  | .yield :: r, hs => wf ok r hs

/-- no condition on acquisitions: plain bracketing -/
def anyOrder : List L → L → Bool := fun _ _ => true

/-- acquisitions go strictly up in rank -/
def rankOrder (rank : L → Nat) : List L → L → Bool := fun hs l => hs.all (fun h => decide (rank h < rank l))

structure LockInv (ok : List L → L → Bool) (s : St L X U V) : Prop where
  thr : ∀ i t, s.threads[i]? = some t →
    wf ok t.pc t.held = true ∧ t.held.Nodup ∧ ∀ l, l ∈ t.held ↔ s.owner l = some i
  own : ∀ l j, s.owner l = some j → j < s.threads.length

theorem lockInv_init (ok : List L → L → Bool) (c0 : X → V) (progs : List (List (Micro L X U)))
    (h : ∀ p ∈ progs, wf ok p [] = true) : LockInv ok (init c0 progs) := by
  constructor
  · intro i t ht
    simp only [init, List.getElem?_map] at ht
    cases hp : progs[i]? with
    | none => simp [hp] at ht
    | some p =>
      simp [hp] at ht
      subst ht
      have hm : p ∈ progs := List.mem_of_getElem? hp
      simp [h p hm, init]
  · intro l j hj
    simp [init] at hj

/-- a step that touches neither the lock table nor the held stack -/
theorem lockInv_frame {ok : List L → L → Bool} {s s' : St L X U V} {i : Tid} {t t' : Thread L X U V}
    (inv : LockInv ok s) (ht : s.threads[i]? = some t)
    (hown : s'.owner = s.owner) (hthr : s'.threads = s.threads.set i t')
    (hheld : t'.held = t.held) (hwf : wf ok t'.pc t.held = true) : LockInv ok s' := by
  constructor
  · intro j tj hj
    rw [hthr] at hj
    rcases getElem?_set_cases hj with ⟨rfl, rfl, _⟩ | ⟨hne, hj'⟩
    · have := inv.thr _ _ ht
      rw [hown, hheld]
      exact ⟨hwf, this.2.1, this.2.2⟩
    · rw [hown]; exact inv.thr _ _ hj'
  · intro l j hj
    rw [hown] at hj
    rw [hthr, List.length_set]
    exact inv.own l j hj

theorem lockInv_step {ok : List L → L → Bool} {ap : U → V → V → V} {s s' : St L X U V} {i : Tid}
    (inv : LockInv ok s) (h : step ap s i = some s') : LockInv ok s' := by
  obtain ⟨t, m, r, ht, hpc, he⟩ := step_some h
  have hi := inv.thr i t ht
  rw [hpc] at hi
  cases he with
  | acquire l r ho =>
    have hwf := hi.1
    simp only [wf, Bool.and_eq_true] at hwf
    have hl : l ∉ t.held := fun hm => by have := (hi.2.2 l).mp hm; simp [ho] at this
    constructor
    · intro j tj hj
      simp only at hj
      rcases getElem?_set_cases hj with ⟨rfl, rfl, _⟩ | ⟨hne, hj'⟩
      · refine ⟨hwf.2, List.nodup_cons.mpr ⟨hl, hi.2.1⟩, ?_⟩
        intro l'
        by_cases hll : l' = l
        · subst hll; simp
        · simp [upd_ne _ _ hll, hll, hi.2.2 l']
      · have hjj := inv.thr j tj hj'
        refine ⟨hjj.1, hjj.2.1, ?_⟩
        intro l'
        by_cases hll : l' = l
        · subst hll
          simp only [upd_same]
          constructor
          · intro hm; have := (hjj.2.2 l').mp hm; simp [ho] at this
          · intro he; exact absurd (Option.some.inj he).symm hne
        · simp only [upd_ne _ _ hll]; exact hjj.2.2 l'
    · intro l' j hj
      simp only [List.length_set]
      simp only at hj
      by_cases hll : l' = l
      · subst hll
        simp only [upd_same] at hj
        cases hj
        exact (List.getElem?_eq_some_iff.mp ht).1
      · rw [upd_ne _ _ hll] at hj; exact inv.own l' j hj
  | release l r ho =>
    have hwf := hi.1
    cases hh : t.held with
    | nil => simp [wf, hh] at hwf
    | cons h0 hs' =>
      simp only [wf, hh, Bool.and_eq_true, decide_eq_true_eq] at hwf
      obtain ⟨rfl, hwf'⟩ := hwf
      have hnd := hi.2.1
      rw [hh] at hnd
      have hnd' := List.nodup_cons.mp hnd
      constructor
      · intro j tj hj
        simp only at hj
        rcases getElem?_set_cases hj with ⟨rfl, rfl, _⟩ | ⟨hne, hj'⟩
        · simp only [List.erase_cons_head]
          refine ⟨hwf', hnd'.2, ?_⟩
          intro l'
          by_cases hll : l' = h0
          · subst hll; simp [hnd'.1]
          · have := hi.2.2 l'
            rw [hh] at this
            simp only [upd_ne _ _ hll]
            simp [hll] at this
            exact this
        · have hjj := inv.thr j tj hj'
          refine ⟨hjj.1, hjj.2.1, ?_⟩
          intro l'
          by_cases hll : l' = h0
          · subst hll
            simp only [upd_same]
            constructor
            · intro hm
              have := (hjj.2.2 l').mp hm
              rw [ho] at this
              exact absurd (Option.some.inj this).symm hne
            · intro he; cases he
          · simp only [upd_ne _ _ hll]; exact hjj.2.2 l'
      · intro l' j hj
        simp only [List.length_set]
        simp only at hj
        by_cases hll : l' = h0
        · subst hll; simp at hj
        · rw [upd_ne _ _ hll] at hj; exact inv.own l' j hj
  | load x r => exact lockInv_frame inv ht rfl rfl rfl (by simpa [wf] using hi.1)
  | store x u r => exact lockInv_frame inv ht rfl rfl rfl (by simpa [wf] using hi.1)
  | iterBegin x r => exact lockInv_frame inv ht rfl rfl rfl (by simpa [wf] using hi.1)
  | iterEnd x r => exact lockInv_frame inv ht rfl rfl rfl (by simpa [wf] using hi.1)
  | call b c r => exact lockInv_frame inv ht rfl rfl rfl (by simpa [wf] using hi.1)
  | yield r => exact lockInv_frame inv ht rfl rfl rfl (by simpa [wf] using hi.1)

theorem lockInv_run {ok : List L → L → Bool} {ap : U → V → V → V} (c0 : X → V) (progs : List (List (Micro L X U)))
    (h : ∀ p ∈ progs, wf ok p [] = true) (sched : List Tid) : LockInv ok (run ap (init c0 progs) sched) :=
  run_induction (LockInv ok) (fun _ _ _ inv hs => lockInv_step inv hs) sched _ (lockInv_init ok c0 progs h)

/-- two threads never hold the same lock -/
theorem lockInv_exclusive {ok : List L → L → Bool} {s : St L X U V} (inv : LockInv ok s)
    {i j : Tid} {ti tj : Thread L X U V} (hi : s.threads[i]? = some ti) (hj : s.threads[j]? = some tj)
    {l : L} (hli : l ∈ ti.held) (hlj : l ∈ tj.held) : i = j := by
  have a := ((inv.thr i ti hi).2.2 l).mp hli
  have b := ((inv.thr j tj hj).2.2 l).mp hlj
  rw [a] at b
  exact Option.some.inj b

/-! ### deadlock freedom -/

/-- thread `i` waits for lock `l`, which somebody holds -/
def BlockedOn (s : St L X U V) (i : Tid) (l : L) : Prop :=
  ∃ t r, s.threads[i]? = some t ∧ t.pc = .acquire l :: r ∧ s.owner l ≠ none

/-- in a state where nobody can move, every unfinished thread waits for a held lock -/
theorem stuck_blocked {ok : List L → L → Bool} {ap : U → V → V → V} {s : St L X U V} (inv : LockInv ok s)
    (hst : stuck ap s) {i : Tid} {t : Thread L X U V} (ht : s.threads[i]? = some t) (hpc : t.pc ≠ []) :
    ∃ l, BlockedOn s i l := by
  have hs := hst i
  have hi := inv.thr i t ht
  unfold step at hs
  rw [ht] at hs
  simp only at hs
  cases hp : t.pc with
  | nil => exact absurd hp hpc
  | cons m r =>
    rw [hp] at hs hi
    cases m with
    | acquire l =>
      simp only at hs
      split at hs
      · cases hs
      · next ho => exact ⟨l, t, r, ht, hp, ho⟩
    | release l =>
      simp only at hs
      split at hs
      · cases hs
      · next ho =>
        exfalso
        have hwf := hi.1
        cases hh : t.held with
        | nil => simp [wf, hh] at hwf
        | cons h0 hs' =>
          simp only [wf, hh, Bool.and_eq_true, decide_eq_true_eq] at hwf
          have := (hi.2.2 l).mp (by rw [hh, hwf.1]; exact List.mem_cons_self)
          exact ho this
    | load x => simp at hs
    | store x u => simp at hs
    | iterBegin x => simp at hs
    | iterEnd x => simp at hs
    | call b c => simp at hs
    | yield => simp at hs

theorem wf_nil_held {ok : List L → L → Bool} {hs : List L} (h : wf ok ([] : List (Micro L X U)) hs = true) : hs = [] := by
  simpa [wf] using h

/-- whoever is waited for waits itself, for a lock of strictly higher rank -/
theorem blocked_chain {rank : L → Nat} {ap : U → V → V → V} {s : St L X U V} (inv : LockInv (rankOrder rank) s)
    (hst : stuck ap s) {i : Tid} {l : L} (hb : BlockedOn s i l) :
    ∃ j l', BlockedOn s j l' ∧ rank l < rank l' := by
  obtain ⟨t, r, ht, hpc, ho⟩ := hb
  cases hown : s.owner l with
  | none => exact absurd hown ho
  | some j =>
    have hj := inv.own l j hown
    obtain ⟨tj, htj⟩ : ∃ tj, s.threads[j]? = some tj := ⟨s.threads[j], List.getElem?_eq_getElem hj⟩
    have hjj := inv.thr j tj htj
    have hmem : l ∈ tj.held := (hjj.2.2 l).mpr hown
    have hne : tj.pc ≠ [] := by
      intro he
      have hw := hjj.1
      rw [he] at hw
      have := wf_nil_held hw
      rw [this] at hmem
      cases hmem
    obtain ⟨l', tj', r', htj', hpc', ho'⟩ := stuck_blocked inv hst htj hne
    rw [htj] at htj'
    cases htj'
    refine ⟨j, l', ⟨tj, r', htj, hpc', ho'⟩, ?_⟩
    have hw := hjj.1
    rw [hpc'] at hw
    simp only [wf, rankOrder, Bool.and_eq_true, List.all_eq_true, decide_eq_true_eq] at hw
    exact hw.1 l hmem

theorem no_chain {rank : L → Nat} {ap : U → V → V → V} {s : St L X U V} (inv : LockInv (rankOrder rank) s)
    (hst : stuck ap s) (B : Nat) (hB : ∀ l, rank l ≤ B) :
    ∀ n i l, BlockedOn s i l → B - rank l ≤ n → False := by
  intro n
  induction n with
  | zero =>
    intro i l hb hn
    obtain ⟨j, l', _, hlt⟩ := blocked_chain inv hst hb
    have := hB l'
    omega
  | succ n ih =>
    intro i l hb hn
    obtain ⟨j, l', hb', hlt⟩ := blocked_chain inv hst hb
    have := hB l'
    exact ih j l' hb' (by omega)

/-- rank-ordered acquisition: if some thread is unfinished, some thread can move -/
theorem lockInv_progress {rank : L → Nat} {ap : U → V → V → V} {s : St L X U V} (inv : LockInv (rankOrder rank) s)
    (B : Nat) (hB : ∀ l, rank l ≤ B) (hnf : ¬ finished s) : ∃ i, (step ap s i).isSome = true := by
  apply Classical.byContradiction
  intro hno
  have hst : stuck ap s := by
    intro i
    cases hs : step ap s i with
    | none => rfl
    | some s' => exact absurd ⟨i, by simp [hs]⟩ hno
  apply hnf
  intro t htm
  apply Classical.byContradiction
  intro hpc
  obtain ⟨i, hi, hget⟩ := List.getElem_of_mem htm
  have ht : s.threads[i]? = some t := by rw [List.getElem?_eq_getElem hi, hget]
  obtain ⟨l, hb⟩ := stuck_blocked inv hst ht hpc
  exact no_chain inv hst B hB (B - rank l) i l hb (Nat.le_refl _)

end
end PromVerif.Model.Conc
