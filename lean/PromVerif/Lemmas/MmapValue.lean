/-
C10/C11: the spec view of an entry list, value updates and value reads on a represented file, and the index view `absOf`.
-/
import PromVerif.Lemmas.MmapInit
import PromVerif.Spec.MmapDict
namespace PromVerif.Lemmas.Mmap
open PromVerif.Py PromVerif.Model.MmapDict PromVerif.Generated.Mmap
open PromVerif.Spec.MmapDict (Store)

/-! ## spec view of an entry list -/

def triples (es : List Entry) : Store := es.map fun e => (e.key, e.v, e.t)

@[simp] theorem triples_nil : triples [] = [] := rfl
@[simp] theorem triples_cons (e : Entry) (es : List Entry) : triples (e :: es) = (e.key, e.v, e.t) :: triples es := rfl
@[simp] theorem triples_append (a b : List Entry) : triples (a ++ b) = triples a ++ triples b := by simp [triples]

theorem scanOut_triples (es : List Entry) (p : Nat) :
    (scanOut p es).map (fun (x : Item) => (x.1, x.2.1, x.2.2.1)) = triples es := by
  induction es generalizing p with
  | nil => simp [scanOut]
  | cons e es ih => simp [scanOut, ih]

theorem has_triples (es : List Entry) (k : Key) : (triples es).has k = decide (k ∈ keys es) := by
  induction es with
  | nil => simp [Store.has]
  | cons e es ih =>
    simp only [Store.has, triples_cons, List.any_cons, keys_cons, List.mem_cons] at ih ⊢
    rw [ih]
    by_cases h : e.key = k
    · simp [h]
    · have : ¬ k = e.key := fun x => h x.symm
      simp [h, this]

theorem write_triples_fresh (es : List Entry) (k : Key) (v t : UInt64) (h : k ∉ keys es) :
    (triples es).write k v t = triples (es ++ [⟨k, v, t⟩]) := by
  induction es with
  | nil => simp [Store.write]
  | cons e es ih =>
    simp only [keys_cons, List.mem_cons, not_or] at h
    have : ¬ e.key = k := fun x => h.1 x.symm
    simp [Store.write, this, ih h.2]

theorem write_triples_present (es1 es2 : List Entry) (e : Entry) (v t : UInt64) (h : e.key ∉ keys es1) :
    (triples (es1 ++ e :: es2)).write e.key v t = triples (es1 ++ ⟨e.key, v, t⟩ :: es2) := by
  induction es1 with
  | nil => simp [Store.write]
  | cons x es1 ih =>
    simp only [keys_cons, List.mem_cons, not_or] at h
    have : ¬ x.key = e.key := fun y => h.1 y.symm
    have ih' := ih h.2
    simp only [triples_append, triples_cons] at ih'
    simp [Store.write, this, ih']

theorem write_triples_same (es : List Entry) (e : Entry) : (triples es ++ [(e.key, 0, 0)]) = triples (es ++ [fresh e.key]) := by
  simp [fresh]

/-! ## a value update on the file -/

theorem value_write {file used es1 e es2 tail} (h : FileRep file used (es1 ++ e :: es2) tail) (v t : UInt64) :
    sliceWrite file (valuePos (8 + (encEntries es1).length) e.key) (le64 v ++ le64 t)
      = hdr used ++ (encEntries (es1 ++ ⟨e.key, v, t⟩ :: es2) ++ tail) := by
  have := sliceWrite_of_eq (data := file)
    (a := hdr used ++ (encEntries es1 ++ (le 4 (klen e.key) ++ (encodeKey e.key ++ List.replicate (padLen (klen e.key)) 32))))
    (b := le64 e.v ++ le64 e.t) (b' := le64 v ++ le64 t) (c := encEntries es2 ++ tail)
    (pos := valuePos (8 + (encEntries es1).length) e.key)
    (by rw [h.file_eq]; simp [encEntry]) (by simp [valuePos, klen]; omega) (by simp)
  rw [this]; simp [encEntry]

theorem value_write_rep {file used es1 e es2 tail} (h : FileRep file used (es1 ++ e :: es2) tail) (v t : UInt64) :
    FileRep (sliceWrite file (valuePos (8 + (encEntries es1).length) e.key) (le64 v ++ le64 t)) used
      (es1 ++ ⟨e.key, v, t⟩ :: es2) tail := by
  refine ⟨value_write h v t, ?_, h.used_lt⟩
  rw [h.used_eq]; congr 1
  exact encEntries_length_congr _ _ (by simp)

theorem value_read {file used es1 e es2 tail} (h : FileRep file used (es1 ++ e :: es2) tail) :
    unpackTwoDoubles file (valuePos (8 + (encEntries es1).length) e.key) = .ok (e.v, e.t) := by
  have := unpackTwoDoubles_entry (data := file) (pre := hdr used ++ encEntries es1) (rest := encEntries es2 ++ tail)
    (pos := 8 + (encEntries es1).length) (e := e) (by rw [h.file_eq]; simp) (by simp)
  simpa [valuePos] using this

theorem value_pos_bound {file used es1 e es2 tail} (h : FileRep file used (es1 ++ e :: es2) tail) :
    valuePos (8 + (encEntries es1).length) e.key + 16 ≤ used := by
  have := h.used_eq
  simp [entryLen] at this
  simp [valuePos]; omega

/-! ## the index view of an open store: what `read_value` returns for every indexed key, in index order -/

def absOf (d : MmapedDict) : Store :=
  d.positions.filterMap fun (k, p) =>
    match unpackTwoDoubles d.file p with
    | .ok (v, t) => some (k, v, t)
    | .error _ => none

theorem absOf_aux (data : Bytes) : ∀ (es : List Entry) (pre rest : Bytes), data = pre ++ (encEntries es ++ rest) →
    (posOf pre.length es).filterMap (fun (x : Key × Nat) =>
      match unpackTwoDoubles data x.2 with
      | .ok (v, t) => some (x.1, v, t)
      | .error _ => none) = triples es := by
  intro es
  induction es with
  | nil => intro pre rest _; simp [posOf]
  | cons e es ih =>
    intro pre rest hd
    have h1 := unpackTwoDoubles_entry (data := data) (pre := pre) (rest := encEntries es ++ rest) (pos := pre.length)
      (e := e) (by rw [hd]; simp) rfl
    have h2 := ih (pre ++ encEntry e) rest (by rw [hd]; simp)
    simp only [List.length_append, encEntry_length] at h2
    simp [posOf, valuePos, h1, h2]

theorem Rep.absOf_eq {d es tail} (h : Rep d es tail) : absOf d = triples es := by
  unfold absOf
  rw [h.pos]
  have := absOf_aux d.file es (hdr d.used) tail h.file.file_eq
  simpa using this

end PromVerif.Lemmas.Mmap
