/-
"Duplicate label names are rejected", whatever the SPELLING of the name tokens.

Lemmas/OMDupLabel.lean works on rendered blocks, where every name has its one canonical spelling (a legacy name bare,
any other name quoted and escaped).  The parser compares DECODED names (`if label_name in labels`), so one label written
once bare and once quoted — `a="1","a"="2"` — is a duplicate too.  Here every item carries its own name token; the only
requirements on a token (`TokOK`) are what the loop needs: the scanner passes it, `_unquote_unescape` decodes it to the
name, it does not start with a blank or a comma.  The canonical spelling and the quoted spelling (of ANY accepted name,
legacy ones included) satisfy them.
-/
import PromVerif.Lemmas.OMDupLabel

set_option autoImplicit false

namespace PromVerif.Lemmas.OMRt
open PromVerif.Py PromVerif.Model PromVerif.Model.Escape PromVerif.Model.ParseCore PromVerif.Model.Validation
open PromVerif.Model.OMParse PromVerif.Lemmas.Escape PromVerif.Lemmas.Scanner
open PromVerif.Lemmas.TextParse PromVerif.Model.TextExpo
open PromVerif.Lemmas.OM (oneLabelBody parseOneLabel_om_eq omTail nextTerm_om_no_comma nextTerm_om_comma_cons)

/-- what the label loop needs of a name token `tok` that spells the label name `k` -/
structure TokOK (legacy : Bool) (k tok : Str) : Prop where
  ok : labelNameOK legacy k = true
  pass : ∀ chs, NameSafe chs → Pass chs tok
  dec : ∃ q, unquoteUnescape tok = .ok (k, q) ∧ (!q && !isValidLegacyMetricName k) = false
  head : ∃ a t, tok = a :: t ∧ a ≠ ',' ∧ isPySpace a = false

/-- the spelling the expositions use: a legacy name bare, any other name quoted -/
theorem tokOK_canonical {legacy : Bool} {k : Str} (h : labelNameOK legacy k = true) : TokOK legacy k (escapeLabelName k) := by
  refine ⟨h, fun chs hs => nameTok_pass hs h, unquote_nameTok h, ?_⟩
  rcases nameTok_cases h with ⟨e, hne, hc, _⟩ | e
  · rw [e]
    cases hk : k with
    | nil => exact absurd hk hne
    | cons c cs =>
      have hl := hc c (by rw [hk]; simp)
      exact ⟨c, _, rfl, legacyChar_ne hl (by decide), legacyChar_not_space hl⟩
  · rw [e]
    exact ⟨'"', _, rfl, by decide, by decide⟩

/-- the quoted spelling `"name"` of any accepted name — for a legacy name this is the OTHER spelling -/
theorem tokOK_quoted {legacy : Bool} {k : Str} (h : labelNameOK legacy k = true) : TokOK legacy k (qname k) :=
  ⟨h, fun chs hs => quoted_pass chs hs.quote k, ⟨true, unquoteUnescape_quoted k, rfl⟩, ⟨'"', _, rfl, by decide, by decide⟩⟩

/-- an item with its own name token: (token, decoded name, value) -/
abbrev STerm := Str × Str × Str

def sItem (t : STerm) : Str := t.1 ++ '=' :: '"' :: (escape t.2.2 ++ ['"'])
def sDec (t : STerm) : Str × Str := (t.2.1, t.2.2)
def STermOK (legacy : Bool) (t : STerm) : Prop := TokOK legacy t.2.1 t.1
def tailS (l : List STerm) : Str := l.flatMap (fun t => ',' :: sItem t)

theorem tailS_cons (t : STerm) (l : List STerm) : tailS (t :: l) = ',' :: (sItem t ++ tailS l) := by
  simp [tailS]

theorem sitem_pass {chs : Char → Bool} (hs : NameSafe chs) (he : chs '=' = false) {legacy : Bool} {t : STerm}
    (h : STermOK legacy t) : Pass chs (sItem t) := by
  have hn := h.pass chs hs
  have hq : Pass chs ('"' :: (escape t.2.2 ++ ['"'])) := quoted_pass chs hs.quote t.2.2
  have h1 : Pass chs ['='] := pass_plain (by intro c hc; simp at hc; subst hc; exact ⟨by decide, by decide, he⟩)
  have := pass_append hn (pass_append h1 hq)
  simpa [sItem] using this

theorem tailS_pass {chs : Char → Bool} (hs : NameSafe chs) (he : chs '=' = false) (hc : chs ',' = false) {legacy : Bool} :
    ∀ (l : List STerm), (∀ t ∈ l, STermOK legacy t) → Pass chs (tailS l) := by
  intro l
  induction l with
  | nil => intro _; exact ⟨rfl, rfl⟩
  | cons t r ih =>
    intro hok
    rw [tailS_cons]
    have h1 : Pass chs [','] := pass_plain (by intro c hc'; simp at hc'; subst hc'; exact ⟨by decide, by decide, hc⟩)
    have := pass_append h1 (pass_append (sitem_pass hs he (hok t (by simp))) (ih (fun x hx => hok x (by simp [hx]))))
    simpa using this

theorem sitem_head {legacy : Bool} {t : STerm} (h : STermOK legacy t) :
    ∃ a r, sItem t = a :: r ∧ a ≠ ',' ∧ isPySpace a = false := by
  obtain ⟨a, r, e, h1, h2⟩ := h.head
  exact ⟨a, r ++ '=' :: '"' :: (escape t.2.2 ++ ['"']), by simp [sItem, e], h1, h2⟩

theorem sitem_last (t : STerm) : (sItem t).getLast? = some '"' := by
  rw [List.getLast?_eq_some_iff]
  exact ⟨t.1 ++ ('=' :: '"' :: escape t.2.2), by simp [sItem]⟩

theorem sitem_nonempty (t : STerm) : (sItem t).isEmpty = false := by
  unfold sItem; cases t.1 <;> rfl

theorem strip_sitem {legacy : Bool} {t : STerm} (h : STermOK legacy t) : strip (sItem t) = sItem t := by
  obtain ⟨a, r, e, _, hs⟩ := sitem_head h
  exact strip_last_quote (a := a) (by rw [e]; rfl) hs (sitem_last t)

theorem tailS_last (l : List STerm) (h : l ≠ []) : (tailS l).getLast? = some '"' := by
  induction l with
  | nil => exact absurd rfl h
  | cons t r ih =>
    rw [tailS_cons, ← List.cons_append, List.getLast?_append]
    by_cases hr : r = []
    · subst hr
      simp only [tailS, List.flatMap_nil, List.getLast?_nil, Option.none_or]
      obtain ⟨ys, hys⟩ := List.getLast?_eq_some_iff.mp (sitem_last t)
      rw [List.getLast?_eq_some_iff]
      exact ⟨',' :: ys, by rw [hys]; rfl⟩
    · rw [ih hr]; rfl

theorem strip_tailS (l : List STerm) : strip (tailS l) = tailS l := by
  cases l with
  | nil => rfl
  | cons t r =>
    exact strip_eq_self (a := ',') (b := '"') (by rw [tailS_cons]; rfl) comma_not_space (tailS_last _ (by simp)) (by decide)

theorem tailS_length (r : List STerm) : r.length ≤ (tailS r).length := by
  induction r with
  | nil => simp
  | cons t r ih => rw [tailS_cons]; simp; omega

/-- the unquoted '=' of an item is the one after the name token -/
theorem scan_sitem_eq {legacy : Bool} {t : STerm} (h : STermOK legacy t) :
    nextUnquotedChar (sItem t) (· == '=') 0 = some t.1.length :=
  scan_pass_hit (h.pass eqChs eqChs_safe) '=' ('"' :: (escape t.2.2 ++ ['"'])) (by decide) (by decide)

/-- the loop body on an item: it is added under its DECODED name if that is fresh, and rejected if it is present -/
theorem oneLabelBody_sitem {legacy : Bool} {t : STerm} (h : STermOK legacy t) (rest : Str) (acc : List (Str × Str)) :
    oneLabelBody legacy acc (sItem t) rest =
      if acc.any (fun x => x.1 == t.2.1) then .error .valueError else .ok (acc ++ [sDec t], rest) := by
  unfold oneLabelBody
  obtain ⟨q, hq1, hq2⟩ := h.dec
  have htake : List.take t.1.length (sItem t) = t.1 := by unfold sItem; exact List.take_left
  have hdrop : List.drop (t.1.length + 1) (sItem t) = '"' :: (escape t.2.2 ++ ['"']) := by
    unfold sItem; rw [← List.drop_drop, List.drop_left]; rfl
  have hname : (t.2.1 == "__name__".toList) = false := by simpa using labelNameOK_ne_name h.ok
  have hlen : ((escape t.2.2).length + 1 + 1 != ('"' :: (escape t.2.2 ++ ['"'])).length) = false := by simp
  have htk : List.take ((escape t.2.2).length + 1 + 1) ('"' :: (escape t.2.2 ++ ['"'])) = '"' :: (escape t.2.2 ++ ['"']) := by
    apply List.take_of_length_le; simp
  cases hany : acc.any (fun x => x.1 == t.2.1) with
  | true =>
    simp only [bind, Except.bind, pure, Except.pure, sitem_nonempty, Bool.false_eq_true, ↓reduceIte, scan_sitem_eq h, htake, hq1,
      hdrop, hq2, strip_quoted, findClosingQuote_quoted, hlen, htk, unquoteUnescape_quoted, hname,
      labelNameOK_validate h.ok, hany]
    rfl
  | false =>
    simp only [bind, Except.bind, pure, Except.pure, sitem_nonempty, Bool.false_eq_true, ↓reduceIte, scan_sitem_eq h, htake, hq1,
      hdrop, hq2, strip_quoted, findClosingQuote_quoted, hlen, htk, unquoteUnescape_quoted, hname,
      labelNameOK_validate h.ok, hany]
    rfl

-- `_next_term` ----------------------------------------------------------------------------------------------------------------

theorem scan_term_tailS {tm : Str} (hp : Pass termChs tm) (r : List STerm) :
    nextUnquotedChar (tm ++ tailS r) termChs 0 = if r = [] then none else some tm.length := by
  rw [nextUnquotedChar_zero]
  rw [scan_append_of_noHit _ _ _ _ _ hp.1, hp.2]
  cases r with
  | nil => simp [tailS, scan_nil]
  | cons t' r' =>
    rw [tailS_cons, scan_hit termChs ',' _ false (by decide) (by decide)]
    simp

theorem omTail_termS {tm : Str} (hp : Pass termChs tm) (hne : tm ≠ []) (r : List STerm) :
    omTail (tm ++ tailS r) = .ok (strip tm, tailS r) := by
  have he : tm.isEmpty = false := by cases tm <;> simp at hne ⊢
  have hsc := scan_term_tailS hp r
  unfold termChs at hsc
  unfold omTail
  by_cases hr : r = []
  · subst hr
    simp only [↓reduceIte] at hsc
    simp only [hsc]
    simp only [tailS, List.flatMap_nil, List.append_nil, List.take_length, List.drop_length, he, Bool.false_and,
      Bool.false_eq_true, ↓reduceIte, strip_nil]
  · simp only [hr, ↓reduceIte] at hsc
    simp only [hsc, List.take_left, List.drop_left, he, Bool.false_and, Bool.false_eq_true, ↓reduceIte, strip_tailS]

/-- one loop iteration on `item…` (first item) or `,item…` -/
theorem parseOneLabel_om_sitem {legacy : Bool} {t : STerm} (h : STermOK legacy t) (r : List STerm) (lead : Bool)
    (acc : List (Str × Str)) :
    parseOneLabel legacy true ((if lead then [','] else []) ++ (sItem t ++ tailS r)) acc =
      if acc.any (fun x => x.1 == t.2.1) then .error .valueError else .ok (acc ++ [sDec t], tailS r) := by
  have hp : Pass termChs (sItem t) := sitem_pass termChs_safe (by decide) h
  have hne : sItem t ≠ [] := by
    have := sitem_nonempty t
    cases hh : sItem t <;> simp_all
  obtain ⟨a, r', e, hac, _⟩ := sitem_head h
  have ht := omTail_termS hp hne r
  rw [strip_sitem h] at ht
  have hnt : nextTerm ((if lead then [','] else []) ++ (sItem t ++ tailS r)) true = .ok (sItem t, tailS r) := by
    cases lead with
    | false =>
      simp only [Bool.false_eq_true, ↓reduceIte, List.nil_append]
      rw [show sItem t ++ tailS r = a :: (r' ++ tailS r) by simp [e]]
      rw [nextTerm_om_no_comma a _ hac]
      rw [show a :: (r' ++ tailS r) = sItem t ++ tailS r by simp [e]]
      exact ht
    | true =>
      simp only [↓reduceIte, List.cons_append, List.nil_append]
      rw [show sItem t ++ tailS r = a :: (r' ++ tailS r) by simp [e]]
      rw [nextTerm_om_comma_cons a _ hac]
      rw [show a :: (r' ++ tailS r) = sItem t ++ tailS r by simp [e]]
      exact ht
  rw [parseOneLabel_om_eq, hnt]
  simp only [bind, Except.bind, sitem_nonempty, Bool.false_eq_true, ↓reduceIte]
  exact oneLabelBody_sitem h _ acc

-- the loop ---------------------------------------------------------------------------------------------------------------------

theorem any_key_true {acc : List (Str × Str)} {k : Str} (h : k ∈ acc.map (·.1)) : acc.any (fun x => x.1 == k) = true := by
  obtain ⟨x, hx, he⟩ := List.mem_map.mp h
  exact List.any_eq_true.mpr ⟨x, hx, by simp [he]⟩

/-- the loop on `,item,item…`: the decoded pairs in order if the decoded names stay distinct, ValueError if one repeats -/
theorem loop_tailS {legacy : Bool} : ∀ (r : List STerm) (acc : List (Str × Str)) (fuel : Nat), r.length ≤ fuel →
    (∀ t ∈ r, STermOK legacy t) → (acc.map (·.1)).Nodup →
    parseLabelsLoop legacy true fuel (tailS r) acc =
      if ((acc ++ r.map sDec).map (·.1)).Nodup then .ok (acc ++ r.map sDec) else .error .valueError := by
  intro r
  induction r with
  | nil =>
    intro acc fuel _ _ hnd
    simp only [tailS, List.flatMap_nil, List.map_nil, List.append_nil, hnd, ↓reduceIte]
    exact loop_nil_om legacy fuel acc
  | cons t r ih =>
    intro acc fuel hf hok hnd
    cases fuel with
    | zero => simp at hf
    | succ f =>
      rw [tailS_cons, parseLabelsLoop]
      simp only [List.isEmpty_cons, Bool.false_eq_true, ↓reduceIte, bind, Except.bind]
      have hstep := parseOneLabel_om_sitem (hok t (by simp)) r true acc
      simp only [↓reduceIte, List.cons_append, List.nil_append] at hstep
      rw [hstep]
      by_cases hin : t.2.1 ∈ acc.map (·.1)
      · rw [any_key_true hin]
        have hnot : ¬ ((acc ++ (t :: r).map sDec).map (·.1)).Nodup := by
          intro hn
          rw [List.map_append, List.nodup_append] at hn
          exact hn.2.2 _ hin t.2.1 (by simp [sDec]) rfl
        simp only [↓reduceIte, hnot]
      · rw [any_key_false hin]
        simp only [Bool.false_eq_true, ↓reduceIte]
        have hnd' : ((acc ++ [sDec t]).map (·.1)).Nodup := by
          rw [List.map_append, List.nodup_append]
          refine ⟨hnd, by simp, ?_⟩
          intro a ha b hb
          simp only [List.map_cons, List.map_nil, List.mem_singleton] at hb
          subst hb
          intro e; subst e; exact hin ha
        rw [ih (acc ++ [sDec t]) f (by simp at hf; omega) (fun x hx => hok x (by simp [hx])) hnd']
        simp only [List.map_cons, List.append_assoc, List.cons_append, List.nil_append]

/-- a block `item,item,…` of items with their own name tokens -/
def sBlock : List STerm → Str
  | [] => []
  | t :: r => sItem t ++ tailS r

/-- **`parse_labels(block, True)` on items with arbitrary admissible name tokens**: the decoded pairs if the DECODED
names are pairwise distinct, ValueError if one decoded name occurs twice — whatever its two spellings -/
theorem parseLabels_om_sitems {legacy : Bool} (t : STerm) (r : List STerm) (hok : ∀ x ∈ t :: r, STermOK legacy x) :
    parseLabels legacy (sBlock (t :: r)) true =
      if ((t :: r).map (fun x => x.2.1)).Nodup then .ok ((t :: r).map sDec) else .error .valueError := by
  have ht := hok t (by simp)
  obtain ⟨a, r', e, hac, hs⟩ := sitem_head ht
  have hlast : (sItem t ++ tailS r).getLast? = some '"' := by
    rw [List.getLast?_append]
    by_cases hr : r = []
    · subst hr; simp [tailS, sitem_last]
    · rw [tailS_last r hr]; rfl
  have hstrip : strip (sItem t ++ tailS r) = sItem t ++ tailS r :=
    strip_last_quote (a := a) (by rw [e]; rfl) hs hlast
  have hhd : ((sItem t ++ tailS r).head? == some ',') = false := by
    rw [e]; simpa using hac
  unfold parseLabels sBlock
  simp only [hstrip, hhd, Bool.and_false, Bool.false_eq_true, ↓reduceIte]
  rw [parseLabelsLoop]
  have hne : (sItem t ++ tailS r).isEmpty = false := by rw [e]; rfl
  have hstep := parseOneLabel_om_sitem ht r false []
  simp only [Bool.false_eq_true, ↓reduceIte, List.nil_append, List.any_nil] at hstep
  simp only [hne, Bool.false_eq_true, ↓reduceIte, bind, Except.bind, hstep]
  rw [loop_tailS r [sDec t] _ (by have := tailS_length r; simp; omega) (fun x hx => hok x (by simp [hx])) (by simp)]
  have hmap : (([sDec t] ++ r.map sDec).map (·.1)) = (t :: r).map (fun x => x.2.1) := by
    simp [sDec, Function.comp_def]
  rw [hmap]
  rfl

theorem sBlock_pass {legacy : Bool} (t : STerm) (r : List STerm) (hok : ∀ x ∈ t :: r, STermOK legacy x) :
    Pass rbChs (sBlock (t :: r)) :=
  pass_append (sitem_pass rbChs_safe (by decide) (hok t (by simp)))
    (tailS_pass rbChs_safe (by decide) (by decide) r (fun x hx => hok x (by simp [hx])))

-- from the block to the sample line -------------------------------------------------------------------------------------------

/-- the sample line `name{block} rest`: when `parse_labels` rejects the block (which the scanner passes), `_parse_sample`
rejects the line -/
theorem parseSample_block_error (P : Params) {n : Str} (hv : isValidLegacyMetricName n = true) (B : Str) (hB : Pass rbChs B)
    (herr : parseLabels P.legacy B true = .error .valueError) (rem : Str) :
    parseSample P (n ++ '{' :: (B ++ '}' :: ' ' :: rem)) = .error .valueError := by
  obtain ⟨hne, hc⟩ := legacyName_chars hv (legacyMetric_no_newline hv)
  have hls : nextUnquotedChar (n ++ '{' :: (B ++ '}' :: ' ' :: rem)) (· == '{') = some n.length :=
    scan_pass_hit (pass_plain (plainFor_legacy (fun c h => legacyChar_eq_false h (by decide)) hc)) '{' _ (by decide) (by decide)
  have hpre : Pass rbChs (n ++ '{' :: B) := by
    have h1 : Pass rbChs n := pass_plain (plainFor_legacy (fun c h => legacyChar_eq_false h (by decide)) hc)
    have h2 : Pass rbChs ['{'] := pass_plain (by intro c hc; simp at hc; subst hc; exact ⟨by decide, by decide, by decide⟩)
    have := pass_append h1 (pass_append h2 hB)
    simpa using this
  have hle : nextUnquotedChar (n ++ '{' :: (B ++ '}' :: ' ' :: rem)) (· == '}') = some (n ++ '{' :: B).length := by
    have := scan_pass_hit hpre '}' (' ' :: rem) (by decide) (by decide)
    rw [← this]; congr 1; simp
  have hinf : isInfix OMParse.sepHash n = false :=
    isInfix_of_not_mem (c := ' ') (by decide) (fun hm => legacyChar_ne (hc _ hm) (by decide) rfl)
  have hlen2 : (n ++ '{' :: B).length ≤ (n ++ '{' :: (B ++ '}' :: ' ' :: rem)).length := by simp
  have hblock : pySlice (n ++ '{' :: (B ++ '}' :: ' ' :: rem)) ((n.length : Int) + 1) ((n ++ '{' :: B).length : Int) = B := by
    have := pySlice_nat (n ++ '{' :: (B ++ '}' :: ' ' :: rem)) n.length 1 _ hlen2
    simp only [Int.cast_ofNat_Int] at this
    rw [this]
    rw [show n ++ '{' :: (B ++ '}' :: ' ' :: rem) = (n ++ '{' :: B) ++ ('}' :: ' ' :: rem) by simp]
    rw [List.take_left]
    rw [show n ++ '{' :: B = (n ++ ['{']) ++ B by simp]
    rw [show n.length + 1 = (n ++ ['{']).length by simp]
    exact List.drop_left
  unfold parseSample
  simp only [hls, hle, List.take_left, hinf, Bool.false_eq_true, ↓reduceIte, optIdx, Int.ofNat_eq_natCast, hblock,
    herr, bind, Except.bind]

end PromVerif.Lemmas.OMRt
