/-
Driver module "c17": the executable HTTP model on one request / one header value.

  c17 choose <h:accept|->                  → ok <om|text> <ct: om|text|other> <spec: 0|1>
  c17 gzip <h:accept-encoding|->           → ok <0|1> <spec: 0|1>
  c17 strip h:<s> | lower h:<s>            → ok h:<result>
  c17 split h:<one char> h:<s>             → ok <;-list of h:>
  c17 urlq h:<target>                      → ok h:<Model.urlQuery target>
  c17 decode h:<codec> x:<bytes>           → ok h:<text> | err UnicodeError
  c17 info                                 → ok h:<asgiParseEncoding> h:<asgiParseErrors> <asgiParseDefault 0|1>
                                             (the extracted `encoding=` / `errors=` arguments of asgi.py's parse_qs call)
  c17 req h:<method> h:<PATH_INFO|-> h:<target> x:<query bytes> <acc> <ae> x:<accept name> x:<accept-encoding name>
          <others> <ptable> <palt> <pbytes> <d>
        acc, ae : `-` (no such field line) or `;`-list of x: values (one per field line, raw bytes)
        others  : `;`-list of  x:name>x:value  put before the Accept lines (`.` for none)
        ptable  : parse_qs on str, as a table:  `;`-list of  h:<query>=<dict>  with dict = `.` or `&`-list of h:key>h:v1,h:v2 ;
                  it must contain the latin-1 text of the query bytes and `urlQuery target` (else `err parse-miss`)
        palt    : the same kind of table for parse_qs with the extracted encoding= / errors= arguments (only looked up when
                  asgi.py passes non-default ones)
        pbytes  : what parse_qs returned for the bytes query string: `;`-list of  x:key>x:v1,x:v2, or `!` = it raised
                  UnicodeEncodeError / UnicodeDecodeError   (only reached when asgi.py does not decode the query string)
        d       : disable_compression 0|1 (WSGI/ASGI; MetricsHandler has no such switch)
      The same bytes go to the three front-ends: WSGI sees them as latin-1 text (values of repeated field lines joined
      with ',' as wsgiref does), ASGI as bytes, MetricsHandler as latin-1 text (http.server).
      → ok W=<obs> A=<obs> H=<obs>   with  obs = h:<status>|<headers>|<body>|<collected 0|1>   or  err:<PyErr>
        headers = `,`-list of h:name>h:value (`.` = none);  body = empty | err | <om|text>:<restr>:<gzip count>
        restr   = `-` (unrestricted) or `+` followed by `,`-list of s:<hex>/b:<hex> names

The spec column of `choose`/`gzip` is the token-list reading of the header (`Lemmas.Http.tokensOf`), equal to the model
column by `Props.C17.om_iff_listed` / `gzip_accepted_iff`.
-/
import PromVerif.Py.Wire
import PromVerif.Model.Http
import PromVerif.Spec.Http
import PromVerif.Lemmas.Http

namespace PromVerif.Drv.C17
open PromVerif.Wire PromVerif.Model.Http
open PromVerif.Py (PyM PyErr)

inductive DBody
  | empty
  | err
  | expo (f : Fmt) (r : Option (List PyKey)) (gz : Nat)

def env : Env DBody :=
  { expo := fun f r => .expo f r 0,
    gzip := fun b => match b with
      | .expo f r n => .expo f r (n + 1)
      | b => b,
    empty := .empty,
    errBody := fun _ _ => .err }

def fmtName : Fmt → String
  | .om => "om"
  | .text => "text"

def encKey : PyKey → String
  | .str s => "s:" ++ bytesToHex (String.ofList s).toUTF8.toList
  | .bytes b => "b:" ++ bytesToHex b

def encBody : DBody → String
  | .empty => "empty"
  | .err => "err"
  | .expo f r n =>
    let rs := match r with
      | none => "-"
      | some names => "+" ++ ",".intercalate (names.map encKey)
    s!"{fmtName f}:{rs}:{n}"

def encHeaders (hs : List (Str × Str)) : String :=
  if hs.isEmpty then "." else ",".intercalate (hs.map fun h => encText h.1 ++ ">" ++ encText h.2)

def encResp (r : Resp DBody) : String :=
  s!"{encText r.status}|{encHeaders r.headers}|{encBody r.body}|{if r.collected then 1 else 0}"

def optText (f : String) : Option (Option Str) :=
  if f = "-" then some none else (decText f).map some

def decOptBytesList (f : String) : Option (Option (List Bytes)) :=
  if f = "-" then some none else ((decList f).mapM decBytes).map some

def splitOn2 (sep : String) (f : String) : Option (String × String) :=
  match f.splitOn sep with
  | [a, b] => some (a, b)
  | _ => none

def decBytePairs (f : String) : Option (List (Bytes × Bytes)) :=
  (decList f).mapM fun e => do
    let (a, b) ← splitOn2 ">" e
    pure (← decBytes a, ← decBytes b)

def decCommaTexts (f : String) : Option (List Str) :=
  if f = "" then some [] else (f.splitOn ",").mapM decText

def decCommaBytes (f : String) : Option (List Bytes) :=
  if f = "" then some [] else (f.splitOn ",").mapM decBytes

def decDict (f : String) : Option (List (Str × List Str)) :=
  if f = "." then some [] else
  (f.splitOn "&").mapM fun e => do
    let (a, b) ← splitOn2 ">" e
    pure (← decText a, ← decCommaTexts b)

def decPTable (f : String) : Option (List (Str × List (Str × List Str))) :=
  (decList f).mapM fun e => do
    let (a, b) ← splitOn2 "=" e
    pure (← decText a, ← decDict b)

def decPBytes (f : String) : Option (PyM (List (Bytes × List Bytes))) :=
  if f = "!" then some (.error .unicodeError) else
  ((decList f).mapM fun e => do
    let (a, b) ← splitOn2 ">" e
    pure (← decBytes a, ← decCommaBytes b)).map .ok

def b01 (b : Bool) : String := if b then "1" else "0"

def specOM (h : Option Str) : Bool :=
  (Lemmas.Http.tokensOf (h.getD [])).any fun t => t == Spec.Http.omMediaType

def specGzip (h : Option Str) : Bool :=
  (Lemmas.Http.tokensOf (h.getD [])).any fun t => t.map Spec.Http.foldAscii == Spec.Http.gzipCoding

def ctTag (ct : Str) : String :=
  if ct = Spec.Http.contentType .om then "om" else if ct = Spec.Http.contentType .text then "text" else "other"

/-- wsgiref joins repeated field lines with ',' into one environ value (latin-1 text of the bytes) -/
def wsgiValue : Option (List Bytes) → Option Str
  | none => none
  | some vs => some (joinWith [','] (vs.map latin1))

def handleReq (method : Str) (pathInfo : Option Str) (target : Str) (qs : Bytes) (acc ae : Option (List Bytes))
    (an aen : Bytes) (others : List (Bytes × Bytes)) (ptable palt : List (Str × List (Str × List Str)))
    (pbytes : PyM (List (Bytes × List Bytes))) (d : Bool) : String :=
  match ptable.lookup (latin1 qs), ptable.lookup (urlQuery target) with
  | some _, some _ =>
    let parseQs : Str → List (Str × List Str) := fun q => (ptable.lookup q).getD []
    let fields := others ++ ((acc.getD []).map fun v => (an, v)) ++ ((ae.getD []).map fun v => (aen, v))
    let environ : Environ := ⟨wsgiValue acc, wsgiValue ae, some (latin1 qs), method, pathInfo⟩
    let w := match wsgiApp env parseQs d environ with
      | .ok r => encResp r
      | .error e => "err:" ++ e.name
    let a := match asgiApp env parseQs (fun q => (palt.lookup q).getD []) (fun _ => pbytes) d ⟨fields, some qs⟩ with
      | .ok r => encResp r
      | .error e => "err:" ++ e.name
    let h := encResp (handlerGet env parseQs ⟨fields.map fun f => (latin1 f.1, latin1 f.2), target⟩)
    s!"ok W={w} A={a} H={h}"
  | _, _ => "err parse-miss"

def handle : List String → String
  | ["choose", f] =>
    match optText f with
    | some h =>
      let ec := chooseEncoder h
      s!"ok {fmtName ec.1} {ctTag ec.2} {b01 (specOM h)}"
    | none => "err bad-field"
  | ["gzip", f] =>
    match optText f with
    | some h => s!"ok {b01 (gzipAccepted h)} {b01 (specGzip h)}"
    | none => "err bad-field"
  | ["strip", f] =>
    match decText f with
    | some s => "ok " ++ encText (strip s)
    | none => "err bad-field"
  | ["lower", f] =>
    match decText f with
    | some s => "ok " ++ encText (lower s)
    | none => "err bad-field"
  | ["split", c, f] =>
    match decText c, decText f with
    | some [c], some s => "ok " ++ encList ((splitOn c s).map encText)
    | _, _ => "err bad-field"
  | ["urlq", f] =>
    match decText f with
    | some t => "ok " ++ encText (urlQuery t)
    | none => "err bad-field"
  | ["decode", c, f] =>
    match decText c, decBytes f with
    | some c, some b =>
      match decodeWith c b with
      | .ok t => "ok " ++ encText t
      | .error e => "err " ++ e.name
    | _, _ => "err bad-field"
  | ["info"] =>
    s!"ok {encText Generated.Http.asgiParseEncoding} {encText Generated.Http.asgiParseErrors} {b01 Generated.Http.asgiParseDefault}"
  | ["req", m, p, t, qs, acc, ae, an, aen, oth, pt, pa, pb, d] =>
    match decText m, optText p, decText t, decBytes qs, decOptBytesList acc, decOptBytesList ae, decBytes an, decBytes aen,
      decBytePairs oth, decPTable pt, decPTable pa, decPBytes pb with
    | some m, some p, some t, some qs, some acc, some ae, some an, some aen, some oth, some pt, some pa, some pb =>
      handleReq m p t qs acc ae an aen oth pt pa pb (d = "1")
    | _, _, _, _, _, _, _, _, _, _, _, _ => "err bad-field"
  | _ => "err bad-op"

end PromVerif.Drv.C17
