/-
Driver module "c18".

  c18 run <target> <tmp> <collectors> <cuts> <lastFlush 0|1> <fs0> <fault>
      target, tmp   h:<hex>                       collectors  `;`-list of x:<hex> (rendered output per collector) | .
      cuts          `;`-list of <n>,<0|1> | .      fs0         `;`-list of h:<path>,x:<content> | .
      fault         - | <pos>,<Class>,<ident>,<part>
      → ok <steps> <outcome> <final fs> <spec>
        steps    `;`-list of  <kind>,<tmp|target|other|->,<faulted 0|1>,<target content x:…|->,<tmp content x:…|->,<spec 0|1>
                 one entry per executed effect that is observable as an I/O or collector call (a `removeIfSeen` that
                 removes nothing and the bare `raise` are not), state AFTER the effect; spec = OldOrNew(old,new,target)
        outcome  ok | raise,<Class>,<ident>
        final fs `;`-list of h:<path>,x:<content> sorted by the harness
        spec     <Spec.finalTarget old new raised> as x:…|-
  c18 two <target> <tmp1> <collectors1> <tmp2> <collectors2> <fs0> <schedule> <fault1> <fault2>
      schedule  string of 1/2 (who moves), `.` for empty
      → ok <steps> <final fs>
        steps   `;`-list of <who 1|2>,<kind>,<path>,<faulted>,<target content>,<tmp1 present 0|1>,<tmp2 present 0|1>,<spec 0|1>
  c18 skeleton → the generated skeleton's compiled effect kinds for a one-collector registry (sanity)
-/
import PromVerif.Py.Wire
import PromVerif.Model.Textfile
import PromVerif.Spec.Textfile
namespace PromVerif.Drv.C18
open PromVerif PromVerif.Wire PromVerif.Model.Textfile

def clsName : ExcClass → String
  | .osError => "OSError" | .unicodeEncodeError => "UnicodeEncodeError" | .valueError => "ValueError"
  | .memoryError => "MemoryError" | .runtimeError => "RuntimeError" | .keyboardInterrupt => "KeyboardInterrupt"
  | .systemExit => "SystemExit" | .generatorExit => "GeneratorExit"

def clsOf : String → Option ExcClass
  | "OSError" => some .osError | "UnicodeEncodeError" => some .unicodeEncodeError | "ValueError" => some .valueError
  | "MemoryError" => some .memoryError | "RuntimeError" => some .runtimeError
  | "KeyboardInterrupt" => some .keyboardInterrupt | "SystemExit" => some .systemExit
  | "GeneratorExit" => some .generatorExit | _ => none

def decFault (f : String) : Option (Option Fault) :=
  if f = "-" then some none else
  match f.splitOn "," with
  | [p, c, i, n] => do
      let p ← p.toNat?
      let c ← clsOf c
      let i ← i.toNat?
      let n ← n.toNat?
      pure (some { pos := p, exc := ⟨c, i⟩, part := n })
  | _ => none

def decCuts (f : String) : Option (List (Nat × Bool)) :=
  (decList f).mapM fun e => match e.splitOn "," with
    | [n, b] => do let n ← n.toNat?; pure (n, b = "1")
    | _ => none

def decFs (f : String) : Option Fs :=
  (decList f).mapM fun e => match e.splitOn "," with
    | [p, c] => do let p ← decText p; let c ← decBytes c; pure (p, c)
    | _ => none

def decColls (f : String) : Option (List Content) := (decList f).mapM decBytes

def showOpt : Option Content → String
  | some c => encBytes c
  | none => "-"

def showFs (fs : Fs) : String := encList (fs.map fun (p, c) => s!"{encText p},{encBytes c}")

def whichPath (P : Params) (p : Path) : String :=
  if p = P.tmp then "tmp" else if p = P.target then "target" else "other"

/-- kind and path of an effect as the harness records them; `none` = not observable as a call -/
def label (P : Params) (seenBefore : Bool) : Eff → Option (String × String)
  | .openTrunc p => some ("open", whichPath P p)
  | .collect i => some (s!"collect{i}", "-")
  | .encode => some ("encode", "-")
  | .write p _ _ => some ("write", whichPath P p)
  | .close p => some ("close", whichPath P p)
  | .rename s d => some ("rename", whichPath P s ++ ">" ++ whichPath P d)
  | .pathExists p => some ("exists", whichPath P p)
  | .removeIfSeen p => if seenBefore then some ("remove", whichPath P p) else none
  | .remove p => some ("remove", whichPath P p)
  | .reraise => none

def b01 (b : Bool) : String := if b then "1" else "0"

def traceRun (P : Params) (old : Option Content) : List Step → Cfg → List String → Cfg × List String
  | [], c, acc => (c, acc.reverse)
  | s :: r, c, acc =>
    let c' := applyStep s c
    let acc' := match label P c.loc.seen s.1 with
      | some (k, w) =>
        let t := c'.fs.get P.target
        s!"{k},{w},{b01 s.2.isSome},{showOpt t},{showOpt (c'.fs.get P.tmp)},{b01 (Spec.Textfile.oldOrNewB old P.new t)}" :: acc
      | none => acc
    traceRun P old r c' acc'

def showOutcome : Except Exc Unit → String
  | .ok _ => "ok"
  | .error e => s!"raise,{clsName e.cls},{e.ident}"

def isRaise : Except Exc Unit → Bool
  | .ok _ => false
  | .error _ => true

def traceTwo (P1 P2 : Params) (old : Option Content) : List (Bool × Step) → Cfg2 → List String → Cfg2 × List String
  | [], c, acc => (c, acc.reverse)
  | (w, s) :: r, c, acc =>
    let c' := apply2 (w, s) c
    let P := if w then P1 else P2
    let seen := if w then c.l1.seen else c.l2.seen
    let acc' := match label P seen s.1 with
      | some (k, pth) =>
        let t := c'.fs.get P1.target
        let spec := decide (t = old) || decide (t = some P1.new) || decide (t = some P2.new)
        s!"{if w then 1 else 2},{k},{pth},{b01 s.2.isSome},{showOpt t},{b01 (c'.fs.get P1.tmp).isSome},{b01 (c'.fs.get P2.tmp).isSome},{b01 spec}" :: acc
      | none => acc
    traceTwo P1 P2 old r c' acc'

def decSched (f : String) : List Bool :=
  if f = "." then [] else f.toList.map (· == '1')

def handle : List String → String
  | ["run", tg, tm, cs, cuts, lf, fs0, flt] =>
    match decText tg, decText tm, decColls cs, decCuts cuts, decFs fs0, decFault flt with
    | some tg, some tm, some cs, some cuts, some fs0, some flt =>
      let P : Params := { target := tg, tmp := tm, collectors := cs, cuts := cuts, lastFlush := lf = "1" }
      let old := Fs.get fs0 tg
      let (steps, out) := match flt with
        | some f => (faultedRun P f, outcome P f)
        | none => (normalRun P, Except.ok ())
      let (c, tr) := traceRun P old steps ⟨fs0, {}⟩ []
      s!"ok {encList tr} {showOutcome out} {showFs c.fs} {showOpt (Spec.Textfile.finalTarget old P.new (isRaise out))}"
    | _, _, _, _, _, _ => "err bad-field"
  | ["two", tg, t1, cs1, t2, cs2, fs0, sch, f1, f2] =>
    match decText tg, decText t1, decColls cs1, decText t2, decColls cs2, decFs fs0, decFault f1, decFault f2 with
    | some tg, some t1, some cs1, some t2, some cs2, some fs0, some f1, some f2 =>
      let P1 : Params := { target := tg, tmp := t1, collectors := cs1, lastFlush := true }
      let P2 : Params := { target := tg, tmp := t2, collectors := cs2, lastFlush := true }
      let r1 := match f1 with | some f => faultedRun P1 f | none => normalRun P1
      let r2 := match f2 with | some f => faultedRun P2 f | none => normalRun P2
      let zs := merge (decSched sch) r1 r2
      let (c, tr) := traceTwo P1 P2 (Fs.get fs0 tg) zs ⟨fs0, {}, {}⟩ []
      s!"ok {encList tr} {showFs c.fs}"
    | _, _, _, _, _, _, _, _ => "err bad-field"
  | ["skeleton"] =>
    let P : Params := { target := ['t'], tmp := ['t', '.'], collectors := [[1]] }
    let ks := (body P).filterMap fun x => (label P true x.1).map fun (k, w) => s!"{k}:{w}:{b01 x.2.isSome}"
    let hs := (handlerEffs P).filterMap fun e => (label P true e).map fun (k, w) => s!"{k}:{w}"
    s!"ok {encList ks} {String.ofList Generated.Textfile.caughtClass} {encList hs} {b01 (Generated.Textfile.Sk.reraise ∈ Generated.Textfile.handler)}"
  | _ => "err bad-op"

end PromVerif.Drv.C18
