/-
Driver module "c12": one single-process history through both back-end models in one request line.

  c12 run h:<pid> <clock> <specs> <ops>
     clock   `,`-list of b:<u64>: what time.time() returns during step n (one per op; `.` = none)
     specs   `|`-list of   <legacy 0|1>^<kind>^h:<name>^h:<help>^h:<mode>^<labelnames>^<extra>
               kind counter|gauge|summary|histogram ; labelnames `,`-list of h: ; extra as in c01 (`,`-list of b:<u64>~h:<repr>)
     ops     `;`-list of   call/<i>/<args>/<kws>/<act>/<arg> | remove/<i>/<args> | clear/<i>      (fields as in c01)

  reply  ok <outs> <rawMutex> <rawMp> <normMutex> <normMp> <normMutexErased> <normMpErased>
            outs       `;`-list of ok|<class>, one per op (`.` = none)
            raw*       `,`-list of h:<family>!h:<name>!<labels>!b:<u64>    (`.` = none; rawMp = E<class> if the collector raised)
            norm*      `,`-list of h:<name>!<labels>!b:<u64>               labels `+`-list of h:k=h:v (`.` = none)
            norm*Erased  the in-memory collection of the history with every remove/clear ERASED, and the file-backed
                       collection of the given history, both normalised with the erased history's never-set predicate
         err <class>     a constructor raised
-/
import PromVerif.Drv.C01
import PromVerif.Drv.C08
import PromVerif.Model.Backends
import PromVerif.Spec.Backends
import PromVerif.Lemmas.BackendsEraseRun

namespace PromVerif.Drv.C12
open PromVerif PromVerif.Wire PromVerif.Py
open PromVerif.Model.Metrics (Val Decl Kind Reg Action Addr Out Sample)
open PromVerif.Model.Backends PromVerif.Spec.Backends
open PromVerif.Drv.C01 (splitList decPyVal decKw decAction decKind encOut)
set_option autoImplicit false

def decOp (f : String) : Option (Model.Metrics.Op Float) :=
  match f.splitOn "/" with
  | ["call", i, args, kws, act, arg] => do
    let i ← i.toNat?
    let a ← decAction act arg
    if args = "-" then pure (.call i .none a)
    else do
      let vs ← (splitList "," args).mapM decPyVal
      let kw ← (splitList "," kws).mapM decKw
      pure (.call i (.labels vs kw) a)
  | ["remove", i, args] => do
    let i ← i.toNat?
    let vs ← (splitList "," args).mapM decPyVal
    pure (.remove i vs)
  | ["clear", i] => do
    let i ← i.toNat?
    pure (.clear i)
  | _ => none

/-- (legacy, declaration as written by the caller) -/
def decSpec (f : String) : Option (Bool × MDecl Float) :=
  match f.splitOn "^" with
  | [legacy, kind, name, help, mode, lns, extra] => do
    let k ← decKind kind extra
    let nm ← decText name
    let hp ← decText help
    let md ← decText mode
    let ln ← (splitList "," lns).mapM decText
    pure (legacy == "1", ⟨⟨nm, k, ln⟩, hp, md⟩)
  | _ => none

/-- the constructors: `Gauge.__init__` checks the mode first -/
def constructAll : List (Bool × MDecl Float) → PyM (List (MDecl Float))
  | [] => .ok []
  | (legacy, d) :: r => do
    if isGauge d && !Generated.Multiprocess.gaugeModes.contains d.mode then throw .valueError
    let d' ← Model.Metrics.construct legacy d.decl
    let r' ← constructAll r
    pure (⟨d', d.help, d.mode⟩ :: r')

def encLabels (ls : List (Str × Str)) : String :=
  if ls.isEmpty then "." else "+".intercalate (ls.map (fun kv => encText kv.1 ++ "=" ++ encText kv.2))

def encFlat (xs : List (Flat Float)) : String :=
  if xs.isEmpty then "." else
    ",".intercalate (xs.map (fun x => encText x.fam ++ "!" ++ encText x.name ++ "!" ++ encLabels x.labels ++ "!" ++ encFloat x.value))

def encNorm (xs : List ((Str × List (Str × Str)) × Float)) : String :=
  if xs.isEmpty then "." else
    ",".intercalate (xs.map (fun x => encText x.1.1 ++ "!" ++ encLabels x.1.2 ++ "!" ++ encFloat x.2))

/-- `repr` of every declared bound, keyed by its bit pattern (what `float(le text)` must give back) -/
def reprTable (ds : List (MDecl Float)) : List (Nat × Str) :=
  ds.flatMap (fun d => match d.decl.kind with
    | .histogram bs => bs.map (fun b => (b.1.toBits.toNat, b.2))
    | _ => [])

def handle : List String → String
  | ["run", pid, clock, specs, ops] =>
    match decText pid, (splitList "," clock).mapM decFloat, (if specs = "." then [] else specs.splitOn "|").mapM decSpec,
        (splitList ";" ops).mapM decOp with
    | some pid, some clk, some specs, some ops =>
      match constructAll specs with
      | .error e => "err " ++ e.name
      | .ok ds =>
        let clock : Nat → Float := fun n => clk.getD n 1.0
        let mu := runMutexFrom ds (regFresh ds) ops
        let st := runMmap ds pid clock ops
        let bo := C08.bops (reprTable ds)
        let ns := neverSetOf ds ops
        let rawMutex := flatMutex ds (Model.Metrics.collect mu.1)
        let outs := if mu.2.isEmpty then "." else ";".intercalate (mu.2.map encOut)
        let opsE := Lemmas.Backends.erase ops
        let nsE := neverSetOf ds opsE
        let normE := encNorm (normalise ds nsE (flatMutex ds (Model.Metrics.collect (runMutex ds opsE))))
        match mpCollect bo st with
        | .error e => s!"ok {outs} {encFlat rawMutex} E{e.name} {encNorm (normalise ds ns rawMutex)} . {normE} ."
        | .ok out =>
          let rawMp := flatMp out
          s!"ok {outs} {encFlat rawMutex} {encFlat rawMp} {encNorm (normalise ds ns rawMutex)} {encNorm (normalise ds ns rawMp)} {normE} {encNorm (normalise ds nsE rawMp)}"
    | _, _, _, _ => "err bad-field"
  | _ => "err bad-op"

end PromVerif.Drv.C12
