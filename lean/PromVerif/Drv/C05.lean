import PromVerif.Drv.Codec
import PromVerif.Spec.LineGrammar
import PromVerif.Model.Graphite
import PromVerif.Model.Ctor
namespace PromVerif.Drv.C05
open PromVerif PromVerif.Wire PromVerif.Model PromVerif.Spec

def kindsStr (ks : List (Option LineGrammar.Kind)) : String :=
  encList (ks.map (fun k => match k with | some k => k.name | none => "-"))

def pyRes (r : Py.PyM (List Char)) : String :=
  match r with
  | .ok s => "ok " ++ encText s
  | .error e => "err " ++ e.name

def decTexts : List String → Option (List (List Char))
  | [] => some []
  | f :: r => do
    let a ← decText f
    let as ← decTexts r
    pure (a :: as)

/--
  c05 recognise text|om h:<doc>            → ok <kind per LF-separated piece, `-` = not a line>
  c05 gline h:<line>                       → ok true|false          (Graphite line recogniser)
  c05 sanitize h:<s>                       → ok h:<_sanitize(s)>
  c05 graphite <tags> h:<prefix> <now> <fams>  → ok h:<bytes> | err UnicodeError
  c05 ctor <legacy> h:typ h:name h:ns h:ss h:unit <nstates|-> h:label*   → ok h:<full name> | err ValueError
  c05 metric_init <legacy> h:name h:typ h:unit  → ok h:<name> h:<type> | err ValueError
-/
def handle : List String → String
  | ["recognise", fmt, f] =>
    match decText f with
    | some doc => "ok " ++ kindsStr (LineGrammar.lineKinds (fmt == "om") doc)
    | none => "err bad-field"
  | ["gline", f] =>
    match decText f with
    | some l => "ok " ++ toString (LineGrammar.graphiteLine l)
    | none => "err bad-field"
  | ["sanitize", f] =>
    match decText f with
    | some s => "ok " ++ encText (Graphite.sanitize s)
    | none => "err bad-field"
  | "graphite" :: tags :: p :: now :: rest =>
    match decText p, now.toInt?, Codec.decFamilies rest with
    | some pfx, some n, some fs => pyRes (Graphite.push (tags == "1") pfx n fs)
    | _, _, _ => "err bad-field"
  | "ctor" :: leg :: typ :: name :: ns :: ss :: unit :: nstates :: labels =>
    match decText typ, decText name, decText ns, decText ss, decText unit, decTexts labels with
    | some t, some n, some a, some b, some u, some ls =>
      if nstates == "-" then pyRes (Ctor.wrapperInit (leg == "1") t n a b u ls)
      else pyRes (Ctor.enumInit (leg == "1") n a b u ls (List.replicate (nstates.toNat?.getD 0) []))
    | _, _, _, _, _, _ => "err bad-field"
  | ["metric_init", leg, name, typ, unit] =>
    match decText name, decText typ, decText unit with
    | some n, some t, some u =>
      match Ctor.metricInit (leg == "1") n t u with
      | .ok (n', t') => "ok " ++ encText n' ++ " " ++ encText t'
      | .error e => "err " ++ e.name
    | _, _, _ => "err bad-field"
  | _ => "err bad-op"

end PromVerif.Drv.C05
