/-
Driver module "fam" (serves C07, families part): one constructor call of a `*MetricFamily` class followed by a sequence of
`add_metric` calls through `Model/Families.lean`; opaque Python objects (values, timestamps, exemplars) are tokens.

request   fam run <legacy 0|1> <fge0> <ctor> <adds>
  str       s<hex utf8>
  tok       [a-z0-9]+                      an opaque object
  opt       N | v<tok>
  names     L<str>+<str>…   (L alone = [])            optnames = N | names
  fge0      . | <str>=<p|n|e>+…    `float(s) >= 0` for the first-bucket bounds used: true / false / ValueError
  buckets   B<str>=<tok>=<opt>+…   (B alone = [])     (le, value, exemplar)
  gbuckets  B<str>=<tok>+…
  info      D<str>=<str>+…         states  D<str>=<0|1>+…
  ctor      U,<name>,<doc>,<opt value>,<optnames>,<unit>            | G,… same
            C,<name>,<doc>,<opt value>,<optnames>,<opt created>,<unit>,<opt exemplar>
            S,<name>,<doc>,<opt count>,<opt sum>,<optnames>,<unit>
            H,<name>,<doc>,<N|buckets>,<opt sum>,<optnames>,<unit>   | Q,… with gbuckets
            I,<name>,<doc>,<N|info>,<optnames>                       | E,… with states
  adds      . | <add>;<add>…
  add       U,<names>,<tok>,<opt ts> | G,… | C,<names>,<tok>,<opt created>,<opt ts>,<opt exemplar>
            S,<names>,<tok>,<tok>,<opt ts> | H,<names>,<buckets>,<opt sum>,<opt ts> | Q,… | I,<names>,<info>,<opt ts> | E,…
reply     ok <ErrorClass>                                   the constructor raised
          ok ok <name>!<type>!<doc>!<unit>!<labelnames>!<samples>!<errs>
  samples   _ | <sample>+…     sample = <namehex>/<L k=v&…>/<o<tok>|N|i<n>>/<opt ts>/<opt exemplar>
  errs      . | <ok|ErrorClass>,…    one per add_metric call
-/
import PromVerif.Py.Wire
import PromVerif.Model.Families
import PromVerif.Drv.C06

namespace PromVerif.Drv.Fam
open PromVerif PromVerif.Py PromVerif.Model.Families
open PromVerif.Model.Registry (Name MType)
open PromVerif.Drv.C06 (decHex encHex listOf joinOr)

def tail1 (f : String) : String := String.ofList (f.toList.drop 1)

def decStr (f : String) : Option (List Char) :=
  if f.startsWith "s" then (if tail1 f = "" then some [] else decHex (tail1 f)) else none

def decOpt (f : String) : Option (Option String) :=
  if f = "N" then some none else if f.startsWith "v" then some (some (tail1 f)) else none

def decNames (f : String) : Option (List Name) :=
  if f.startsWith "L" then (listOf "+" "" (tail1 f)).mapM decStr else none

def decOptNames (f : String) : Option (Option (List Name)) :=
  if f = "N" then some none else (decNames f).map some

def decBuckets (f : String) : Option (List (Bucket String)) :=
  if f.startsWith "B" then
    (listOf "+" "" (tail1 f)).mapM fun e =>
      match e.splitOn "=" with
      | [le, v, ex] => do pure ⟨← decStr le, v, ← decOpt ex⟩
      | _ => none
  else none

def decGBuckets (f : String) : Option (List (Name × String)) :=
  if f.startsWith "B" then
    (listOf "+" "" (tail1 f)).mapM fun e =>
      match e.splitOn "=" with
      | [le, v] => do pure (← decStr le, v)
      | _ => none
  else none

def decInfo (f : String) : Option (List (Name × Name)) :=
  if f.startsWith "D" then
    (listOf "+" "" (tail1 f)).mapM fun e =>
      match e.splitOn "=" with
      | [k, v] => do pure (← decStr k, ← decStr v)
      | _ => none
  else none

def decStates (f : String) : Option (List (Name × Bool)) :=
  if f.startsWith "D" then
    (listOf "+" "" (tail1 f)).mapM fun e =>
      match e.splitOn "=" with
      | [k, v] => do pure (← decStr k, v = "1")
      | _ => none
  else none

def optOf {β : Type} (dec : String → Option β) (f : String) : Option (Option β) :=
  if f = "N" then some none else (dec f).map some

def decFge0 (f : String) : Option (Name → Option Bool) := do
  let tbl ← (listOf "+" "." f).mapM fun e =>
    match e.splitOn "=" with
    | [k, v] => do pure (← decStr k, if v = "p" then some true else if v = "n" then some false else none)
    | _ => none
  pure fun s => match tbl.find? (fun kv => kv.1 == s) with
    | some kv => kv.2
    | none => none

def decCtor (f : String) : Option (Ctor String) :=
  match f.splitOn "," with
  | ["U", n, d, v, l, u] => do pure (.unknown (← decStr n) (← decStr d) (← decOpt v) (← decOptNames l) (← decStr u))
  | ["G", n, d, v, l, u] => do pure (.gauge (← decStr n) (← decStr d) (← decOpt v) (← decOptNames l) (← decStr u))
  | ["C", n, d, v, l, c, u, e] => do
    pure (.counter (← decStr n) (← decStr d) (← decOpt v) (← decOptNames l) (← decOpt c) (← decStr u) (← decOpt e))
  | ["S", n, d, c, s, l, u] => do
    pure (.summary (← decStr n) (← decStr d) (← decOpt c) (← decOpt s) (← decOptNames l) (← decStr u))
  | ["H", n, d, b, s, l, u] => do
    pure (.histogram (← decStr n) (← decStr d) (← optOf decBuckets b) (← decOpt s) (← decOptNames l) (← decStr u))
  | ["Q", n, d, b, s, l, u] => do
    pure (.gaugehistogram (← decStr n) (← decStr d) (← optOf decGBuckets b) (← decOpt s) (← decOptNames l) (← decStr u))
  | ["I", n, d, v, l] => do pure (.info (← decStr n) (← decStr d) (← optOf decInfo v) (← decOptNames l))
  | ["E", n, d, v, l] => do pure (.stateset (← decStr n) (← decStr d) (← optOf decStates v) (← decOptNames l))
  | _ => none

def decAdd (f : String) : Option (AddCall String) :=
  match f.splitOn "," with
  | ["U", l, v, t] => do pure (.unknown (← decNames l) v (← decOpt t))
  | ["G", l, v, t] => do pure (.gauge (← decNames l) v (← decOpt t))
  | ["C", l, v, c, t, e] => do pure (.counter (← decNames l) v (← decOpt c) (← decOpt t) (← decOpt e))
  | ["S", l, c, s, t] => do pure (.summary (← decNames l) c s (← decOpt t))
  | ["H", l, b, s, t] => do pure (.histogram (← decNames l) (← decBuckets b) (← decOpt s) (← decOpt t))
  | ["Q", l, b, s, t] => do pure (.gaugehistogram (← decNames l) (← decGBuckets b) (← decOpt s) (← decOpt t))
  | ["I", l, v, t] => do pure (.info (← decNames l) (← decInfo v) (← decOpt t))
  | ["E", l, v, t] => do pure (.stateset (← decNames l) (← decStates v) (← decOpt t))
  | _ => none

def encOpt : Option String → String
  | none => "N"
  | some t => "v" ++ t

def encValue : Value String → String
  | .obj t => "o" ++ t
  | .pyNone => "N"
  | .int n => "i" ++ toString n

def encSample (s : Sample String) : String :=
  "/".intercalate [encHex s.name, "L" ++ "&".intercalate (s.labels.map fun kv => encHex kv.1 ++ "=" ++ encHex kv.2),
    encValue s.value, encOpt s.timestamp, encOpt s.exemplar]

def encErr : Option PyErr → String
  | none => "ok"
  | some e => e.name

def encFam (f : Fam String) (errs : List (Option PyErr)) : String :=
  "!".intercalate [encHex f.name, String.ofList f.typ.name, encHex f.documentation, encHex f.unit,
    "L" ++ "+".intercalate (f.labelnames.map encHex), joinOr "+" "_" (f.samples.map encSample),
    joinOr "," "." (errs.map encErr)]

def runReq (legacy fge0 ctor adds : String) : Option String := do
  let env : Env := ⟨legacy = "1", ← decFge0 fge0⟩
  let c ← decCtor ctor
  let as ← (listOf ";" "." adds).mapM decAdd
  match c.run env with
  | .error e => pure ("ok " ++ e.name)
  | .ok f0 =>
    let r := runAdds env f0 as
    pure ("ok ok " ++ encFam r.1 r.2)

def handle : List String → String
  | ["run", legacy, fge0, ctor, adds] =>
    match runReq legacy fge0 ctor adds with
    | some r => r
    | none => "err bad-field"
  | _ => "err bad-op"

end PromVerif.Drv.Fam
