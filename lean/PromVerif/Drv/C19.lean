import PromVerif.Py.Wire
import PromVerif.Model.Gateway
import PromVerif.Model.GatewayHandlers
import PromVerif.Spec.Gateway
namespace PromVerif.Drv.C19
open PromVerif PromVerif.Wire PromVerif.Py

/-- `h:k,h:v;h:k,h:v` (`.` = empty) -/
def decPairs (f : String) : Option (List (Str × Str)) :=
  (decList f).mapM fun item =>
    match item.splitOn "," with
    | [a, b] => do
      let k ← decText a
      let v ← decText b
      pure (k, v)
    | _ => none

def encPairs (l : List (Str × Str)) : String :=
  encList (l.map fun kv => encText kv.1 ++ "," ++ encText kv.2)

def encOptPairs : Option (List (Str × Str)) → String
  | some l => encPairs l
  | none => "-"

def handle : List String → String
  -- whole request: which public function, gateway, job, grouping key (str(k), str(v) in dict order), time-out token
  | ["use", fn, g, j, gk, t] =>
    match decText g, decText j, decPairs gk with
    | some g, some j, some gk =>
      let call := match fn with
        | "put" => some (Model.Gateway.pushToGateway (β := String) (τ := String) g j "E" "X" gk t)
        | "post" => some (Model.Gateway.pushaddToGateway g j "E" "X" gk t)
        | "delete" => some (Model.Gateway.deleteFromGateway g j "E" "X" gk t)
        | _ => none
      match call with
      | some r =>
        let hdrs := encList (r.headers.map fun kv => encText kv.1 ++ "," ++ encText kv.2)
        let specGo := Spec.Gateway.decodeUrlGo (Model.Gateway.gatewayBase g) r.url
        let specForm := Spec.Gateway.decodeUrl (Model.Gateway.gatewayBase g) r.url
        s!"ok {encText r.url} {encText r.method} {hdrs} {r.data} {r.timeout} {encOptPairs specGo} {encOptPairs specForm}"
      | none => "err bad-fn"
    | _, _, _ => "err bad-field"
  | ["esc", k, v] =>
    match decText k, decText v with
    | some k, some v =>
      let e := Model.Gateway.escapeGroupingKey k v
      s!"ok {encText e.1} {encText e.2} {encOptPairs ((Spec.Gateway.decodePairWith false e.1 e.2).map ([·]))} {encOptPairs ((Spec.Gateway.decodePairWith true e.1 e.2).map ([·]))}"
    | _, _ => "err bad-field"
  -- both stdlib encoders (quote_plus; quote with safe='') and what the two spec decoders make of their output
  | ["quote", s] =>
    match decText s with
    | some s =>
      let opt := fun (o : Option Str) => match o with | some t => encText t | none => "-"
      let qp := Model.Gateway.quotePlus s
      let q := Model.Gateway.quote s
      s!"ok {encText qp} {opt (Spec.Gateway.unquotePlus qp)} {encText q} {opt (Spec.Gateway.unquote q)} {opt (Spec.Gateway.unquotePlus q)}"
    | none => "err bad-field"
  | ["b64", bs] =>
    match decBytes bs with
    | some bs =>
      let e := Model.Gateway.b64encode bs
      let back := match Spec.Gateway.b64decode e with | some t => encBytes t | none => "-"
      s!"ok {encText e} {back}"
    | none => "err bad-field"
  -- the spec decoders on arbitrary text (compared with CPython's lenient ones where both are defined)
  | ["unq", s] =>
    match decText s with
    | some s =>
      let opt := fun (o : Option Str) => match o with | some t => encText t | none => "-"
      s!"ok {opt (Spec.Gateway.unquotePlus s)} {opt (Spec.Gateway.unquote s)}"
    | none => "err bad-field"
  | ["b64d", s] =>
    match decText s with
    | some s => match Spec.Gateway.b64decode s with | some t => s!"ok {encBytes t}" | none => "ok -"
    | none => "err bad-field"
  | ["scheme", g] =>
    match decText g with
    | some g =>
      s!"ok {encText (Model.Gateway.urlScheme g)} {if Model.Gateway.needsPrefix g then 1 else 0} {encText (Model.Gateway.gatewayBase g)}"
    | none => "err bad-field"
  -- the library's own handlers: what `default_handler` / `passthrough_redirect_handler` / `basic_auth_handler` hand to
  -- urllib's opener for a whole public call (user / password: `-` = None)
  | ["wire", hd, fn, g, j, gk, t, user, pw] =>
    let optText := fun (f : String) => if f = "-" then some (none : Option Str) else (decText f).map some
    match decText g, decText j, decPairs gk, optText user, optText pw with
    | some g, some j, some gk, some user, some pw =>
      let call := match fn with
        | "put" => some (Model.Gateway.pushToGateway (β := String) (τ := String) g j "E" "X" gk t)
        | "post" => some (Model.Gateway.pushaddToGateway g j "E" "X" gk t)
        | "delete" => some (Model.Gateway.deleteFromGateway g j "E" "X" gk t)
        | _ => none
      let wire := call.bind fun r => match hd with
        | "default" => some (Model.GatewayHandlers.makeRequest r Generated.Gateway.defaultBase)
        | "redirect" => some (Model.GatewayHandlers.makeRequest r Generated.Gateway.redirectBase)
        | "basic" => some (Model.GatewayHandlers.makeRequest (Model.GatewayHandlers.basicAuthRequest r user pw)
            Generated.Gateway.defaultBase)
        | _ => none
      match wire with
      | some w =>
        let hdrs := encList (w.headers.map fun kv => encText kv.1 ++ "," ++ encText kv.2)
        let tmo := match w.timeout with | .given t => t | .globalDefault => "DEFAULT"
        s!"ok {encText w.url} {encText w.method} {hdrs} {w.body} {tmo} {encText w.base}"
      | none => "err bad-fn"
    | _, _, _, _, _ => "err bad-field"
  -- `if resp.code >= 400: raise OSError`
  | ["status", code] =>
    match code.toNat? with
    | some c => match Model.GatewayHandlers.checkStatus c with
      | .ok () => "ok returns"
      | .error e => s!"ok raises:{e.name}"
    | none => "err bad-field"
  -- `_PrometheusRedirectHandler.redirect_request` on a request with this method / this header list
  | ["redir", m, code, newurl, hs] =>
    match decText m, code.toNat?, decText newurl, decPairs hs with
    | some m, some c, some nu, some hs =>
      match Model.GatewayHandlers.redirectRequest (β := String) (τ := String) ⟨[], m, hs, "B", .given "T", []⟩ c nu with
      | .ok w =>
        let hdrs := encList (w.headers.map fun kv => encText kv.1 ++ "," ++ encText kv.2)
        let tmo := match w.timeout with | .given t => t | .globalDefault => "DEFAULT"
        s!"ok follows {encText w.url} {encText w.method} {hdrs} {w.body} {tmo}"
      | .error e => s!"ok raises:{e.name}"
    | _, _, _, _ => "err bad-field"
  | ["b64std", bs] =>
    match decBytes bs with
    | some bs => s!"ok {encText (Model.GatewayHandlers.b64encodeStd bs)}"
    | none => "err bad-field"
  | _ => "err bad-op"

end PromVerif.Drv.C19
