/-
Driver module "c06" (serves C06 and C07): runs a whole registry history through `Model/Registry.lean` and prints the
observation after every call, then the restricted collections of the final state for the given name sets.

request   c06 hist <ad> <ti> <collectors> <ops> <namesets>
  ad          0 | 1
  labels      N (None) | L<khex>=<vhex>&…      (L alone = {})
  collectors  . | <c>;<c>…       c = <id>~<describe>~<families>
                describe = N | D<namehex>:<type>,…          type = index into METRIC_TYPES
                families = . | <f>,<f>…    f = <namehex>:<type>:<helphex>:<unithex>:<samples>
                samples  = _ | <namehex>/<payload>+…        payload = i<n> | t<labels>
  ops         . | r<id> | u<id> | t<labels>   separated by ;
  namesets    . | <set>;<set>…   set = _ | <namehex>,…
          optional 7th field  watch = . | <k>@<set>;…   a restricted-registry object made after k calls and kept
reply     ok <step>;<step>… <restricted>;<restricted>… [<watch>;<watch>…]          (`.` for none)
  watch       <restricted>|<restricted>…   one per state from the k-th on (collected through the kept object)
  step        <ok|ErrorClass>!<registered ids>!<name-map keys hex>!<target info labels>!<families>!<collect() call ids>
              !<collect() calls made by the call itself (register under auto-describe)>
  restricted  <families>!<call ids>!<spec: filter of the full collection>
-/
import PromVerif.Py.Wire
import PromVerif.Model.Registry
import PromVerif.Spec.Registry

namespace PromVerif.Drv.C06
open PromVerif PromVerif.Py PromVerif.Model.Registry PromVerif.Spec.Registry

def decHex (f : String) : Option (List Char) := Wire.decText ("h:" ++ f)

def encHex (s : List Char) : String := Wire.bytesToHex (String.ofList s).toUTF8.toList

def listOf (sep : String) (none : String) (f : String) : List String :=
  if f = none then [] else f.splitOn sep

def joinOr (sep : String) (none : String) (xs : List String) : String :=
  if xs.isEmpty then none else sep.intercalate xs

def typeOfIdx (n : Nat) : Option MType := MType.all[n]?

def idxOfType (t : MType) : Nat := MType.all.idxOf t

def decLabels (f : String) : Option (Option Labels) :=
  if f = "N" then some none
  else if f.startsWith "L" then
    let body := String.ofList (f.toList.drop 1)
    if body = "" then some (some [])
    else do
      let ps ← (body.splitOn "&").mapM fun kv =>
        match kv.splitOn "=" with
        | [k, v] => do pure ((← decHex k), (← decHex v))
        | _ => none
      pure (some ps)
  else none

def encLabels : Option Labels → String
  | none => "N"
  | some ls => "L" ++ "&".intercalate (ls.map fun kv => encHex kv.1 ++ "=" ++ encHex kv.2)

def decPayload (f : String) : Option Payload :=
  if f.startsWith "i" then (String.ofList (f.toList.drop 1)).toNat?.map Payload.idx
  else if f.startsWith "t" then
    match decLabels (String.ofList (f.toList.drop 1)) with
    | some (some ls) => some (.targetInfo ls)
    | _ => none
  else none

def encPayload : Payload → String
  | .idx n => "i" ++ toString n
  | .targetInfo ls => "t" ++ encLabels (some ls)

def decSample (f : String) : Option Sample :=
  match f.splitOn "/" with
  | [n, p] => do pure ⟨← decHex n, ← decPayload p⟩
  | _ => none

def encSample (s : Sample) : String := encHex s.name ++ "/" ++ encPayload s.payload

def decFamily (f : String) : Option Family :=
  match f.splitOn ":" with
  | [n, t, h, u, ss] => do
    let typ ← typeOfIdx (← t.toNat?)
    let samples ← (listOf "+" "_" ss).mapM decSample
    pure { name := ← decHex n, typ := typ, help := ← decHex h, unit := ← decHex u, samples := samples }
  | _ => none

def encFamily (f : Family) : String :=
  ":".intercalate [encHex f.name, toString (idxOfType f.typ), encHex f.help, encHex f.unit,
    joinOr "+" "_" (f.samples.map encSample)]

def encFamilies (fs : List Family) : String := joinOr "," "." (fs.map encFamily)

def decDescribe (f : String) : Option (Option (List (Name × MType))) :=
  if f = "N" then some none
  else if f.startsWith "D" then do
    let body := String.ofList (f.toList.drop 1)
    let ms ← (listOf "," "" body).mapM fun e =>
      match e.splitOn ":" with
      | [n, t] => do pure ((← decHex n), (← typeOfIdx (← t.toNat?)))
      | _ => none
    pure (some ms)
  else none

def decCollector (f : String) : Option Collector :=
  match f.splitOn "~" with
  | [i, d, fs] => do
    let fams ← (listOf "," "." fs).mapM decFamily
    pure { id := ← i.toNat?, describe := ← decDescribe d, families := fams }
  | _ => none

def decOp (cs : List Collector) (f : String) : Option Op :=
  let body := String.ofList (f.toList.drop 1)
  if f.startsWith "r" then do
    let i ← body.toNat?
    (cs.find? (fun c => c.id == i)).map Op.register
  else if f.startsWith "u" then do
    let i ← body.toNat?
    (cs.find? (fun c => c.id == i)).map Op.unregister
  else if f.startsWith "t" then (decLabels body).map Op.setTargetInfo
  else none

def encOwner : Owner → String
  | .coll c => toString c.id
  | .empty => "E"

def encErr : Option PyErr → String
  | none => "ok"
  | some e => e.name

def encStep (rc : (State × Option PyErr) × List Owner) : String :=
  let r := rc.1
  let s := r.1
  let col := collect s
  "!".intercalate [
    encErr r.2,
    joinOr "," "." (s.collectorToNames.map fun e => toString e.1.id),
    joinOr "," "." (s.namesToCollectors.map fun e => encHex e.1),
    encLabels s.targetInfo,
    encFamilies col.families,
    joinOr "," "." (col.calls.map encOwner),
    joinOr "," "." (rc.2.map encOwner)]

def encRestricted (s : State) (names : List Name) : String :=
  let r := restrictedCollect names s
  "!".intercalate [
    encFamilies r.families,
    joinOr "," "." (r.calls.map encOwner),
    encFamilies ((collect s).families.filterMap (restrictTo names))]

def finalState (s0 : State) (tr : List (State × Option PyErr)) : State :=
  match tr.getLast? with
  | some r => r.1
  | none => s0

def hist (ad ti colls ops sets : String) : Option String := do
  let adb ← if ad = "1" then some true else if ad = "0" then some false else none
  let ti0 ← decLabels ti
  let cs ← (listOf ";" "." colls).mapM decCollector
  let os ← (listOf ";" "." ops).mapM (decOp cs)
  let nss ← (listOf ";" "." sets).mapM fun st => (listOf "," "_" st).mapM decHex
  let s0 := init adb ti0
  let tr := trace s0 os
  let sf := finalState s0 tr
  pure ("ok " ++ joinOr ";" "." ((tr.zip (traceCalls s0 os)).map encStep) ++ " " ++ joinOr ";" "." (nss.map (encRestricted sf)))

/-- a kept restricted-registry object: made after `k` calls of the history, collected after every later call (and
right after it was made) -/
def decWatch (f : String) : Option (Nat × List Name) :=
  match f.splitOn "@" with
  | [k, st] => do pure (← k.toNat?, ← (listOf "," "_" st).mapM decHex)
  | _ => none

def histWatch (ad ti colls ops sets watch : String) : Option String := do
  let base ← hist ad ti colls ops sets
  let adb ← if ad = "1" then some true else if ad = "0" then some false else none
  let ti0 ← decLabels ti
  let cs ← (listOf ";" "." colls).mapM decCollector
  let os ← (listOf ";" "." ops).mapM (decOp cs)
  let ws ← (listOf ";" "." watch).mapM decWatch
  let s0 := init adb ti0
  let states := s0 :: (trace s0 os).map (·.1)
  let enc := ws.map fun w =>
    let r := restrictedRegistry w.2
    joinOr "|" "." ((states.drop w.1).map fun st =>
      let c := r.collect st
      "!".intercalate [encFamilies c.families, joinOr "," "." (c.calls.map encOwner),
        encFamilies ((collect st).families.filterMap (restrictTo w.2))])
  pure (base ++ " " ++ joinOr ";" "." enc)

def handle : List String → String
  | ["hist", ad, ti, colls, ops, sets] =>
    match hist ad ti colls ops sets with
    | some r => r
    | none => "err bad-field"
  | ["hist", ad, ti, colls, ops, sets, watch] =>
    match histWatch ad ti colls ops sets watch with
    | some r => r
    | none => "err bad-field"
  | ["names", ad, coll] =>
    -- function level: CollectorRegistry._get_names
    match decCollector coll with
    | some c => "ok " ++ joinOr "," "." ((getNames (ad = "1") c).map encHex)
    | none => "err bad-field"
  | _ => "err bad-op"

end PromVerif.Drv.C06
