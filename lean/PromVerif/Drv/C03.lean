/-
Driver module "c03": the text parser model on the line protocol.

  c03 parse <legacy 0|1> h:<document>   → ok <families> | err <Class>
  c03 sample <legacy 0|1> h:<line>      → ok <sample>   | err <Class>
  c03 pvt h:<text>                      → ok <num> <ts> | err <Class>
  c03 lines h:<document>                → ok <;-list of h:line>
  c03 rt <legacy 0|1> <fams>            → ok h:<exposition> <parse reply…>   (expose with the model, parse with the model)

  families := N family*        family := h:name h:doc h:typ M sample*
  sample   := h:name L (h:k h:v)* num ts
  num      := i:<int> | b:<u64>          ts := - | num      (the harness divides by 1000)
-/
import PromVerif.Py.Wire
import PromVerif.Py.Float
import PromVerif.Drv.Codec
import PromVerif.Drv.Core
import PromVerif.Model.TextExpo
import PromVerif.Model.TextParse
namespace PromVerif.Drv.C03
open PromVerif PromVerif.Wire PromVerif.Py PromVerif.Model.ParseCore PromVerif.Model.TextParse

def encTs : Option TsMs → String
  | none => "-"
  | some t => Core.encNum t.num

def encSample (s : PSample) : List String :=
  [encText s.name, toString s.labels.length] ++ s.labels.flatMap (fun kv => [encText kv.1, encText kv.2]) ++
    [Core.encNum s.value, encTs s.ts]

def encFamily (f : PFamily) : List String :=
  [encText f.name, encText f.doc, encText f.typ, toString f.samples.length] ++ f.samples.flatMap encSample

def encFamilies (fs : List PFamily) : String :=
  " ".intercalate (toString fs.length :: fs.flatMap encFamily)

def parseReply (legacy : Bool) (doc : Str) : String :=
  match textParse legacy pyInt? Core.pyFloatBitsOpt doc with
  | .ok fs => "ok " ++ encFamilies fs
  | .error e => "err " ++ e.name

def handle : List String → String
  | ["parse", leg, f] => match decText f with
    | some s => parseReply (leg == "1") s
    | none => "err bad-field"
  | ["sample", leg, f] => match decText f with
    | some s => match parseSample (leg == "1") pyInt? Core.pyFloatBitsOpt s with
      | .ok smp => "ok " ++ " ".intercalate (encSample smp)
      | .error e => "err " ++ e.name
    | none => "err bad-field"
  | ["pvt", f] => match decText f with
    | some s => match parseValueAndTimestamp pyInt? Core.pyFloatBitsOpt s with
      | .ok (v, t) => s!"ok {Core.encNum v} {encTs t}"
      | .error e => "err " ++ e.name
    | none => "err bad-field"
  | ["lines", f] => match decText f with
    | some s => "ok " ++ encList ((splitLines s).map encText)
    | none => "err bad-field"
  | "rt" :: leg :: rest =>
    match Codec.decFamilies rest with
    | some fs =>
      let doc := Model.TextExpo.generateLatest fs
      "ok " ++ encText doc ++ " " ++ parseReply (leg == "1") doc
    | none => "err bad-families"
  | _ => "err bad-op"

end PromVerif.Drv.C03
