/-
Driver module "c08" (serves C08 and C09).  Requests are token streams (tokens separated by single spaces).

  c08 merge <reprs> <files>
      reprs := <n> (<bits> h:<repr text>)*            repr(float) of every bound that can occur (CPython's, trusted)
      files := <n> file*
      file  := h:<basename> h:<typ> h:<mode> h:<pid> <n> entry*      (typ/mode/pid: the harness's own bookkeeping, used by S only)
      entry := h:<metric> h:<name> <n> (h:<k> h:<v>)* h:<help> b:<value> b:<ts>
    reply  ok <fams> | <fams>        model (M) first, spec (S) second          or   err <PyErr>
      fams  := <n> fam*     fam := h:<name> h:<doc> h:<typ> <n> sample*     sample := h:<name> <n> (h:<k> h:<v>)* b:<value>

  c08 dead h:<pid> <n> (h:<basename>)*
    reply  ok <n> (h:<basename>)*                 the listing after mark_process_dead

  c08 hist h:<actual pid> <n> op*
      op := C h:<typ> h:<metric> h:<name> <n> (h:<labelname>)* <n> (h:<labelvalue>)* h:<help> h:<mode>
          | I <idx> b:<amount> | S <idx> b:<value> (N | b:<ts>) | G <idx> | P h:<pid>
          | W h:<pid>      a NEW worker (fresh closure, value indices restart at 0) on the same directory
          | D h:<pid>      mark_process_dead(pid)
    reply  ok <n> step*
      step := (- | b:<get result>) <n> filestate*      filestate := h:<file name> <n> (key b:<value> b:<ts>)*
      key  := h:<metric> h:<name> <n> (h:<k> h:<v>)* h:<help>
-/
import PromVerif.Py.Wire
import PromVerif.Py.Float
import PromVerif.Model.Utils
import PromVerif.Model.Multiprocess
import PromVerif.Model.Values
import PromVerif.Spec.Multiprocess

namespace PromVerif.Drv.C08
open PromVerif PromVerif.Wire PromVerif.Py
open PromVerif.Model.Multiprocess

set_option autoImplicit false

abbrev P (α : Type) := List String → Option (α × List String)

def pText : P Str
  | t :: r => (decText t).map (·, r)
  | [] => none

def pNat : P Nat
  | t :: r => t.toNat?.map (·, r)
  | [] => none

def pFloat : P Float
  | t :: r => (decFloat t).map (·, r)
  | [] => none

def pRepeat {α : Type} (p : P α) : Nat → P (List α)
  | 0, ts => some ([], ts)
  | n + 1, ts => do
    let (a, r) ← p ts
    let (as, r') ← pRepeat p n r
    pure (a :: as, r')

def pList {α : Type} (p : P α) : P (List α) := fun ts => do
  let (n, r) ← pNat ts
  pRepeat p n r

def pPair : P (Str × Str) := fun ts => do
  let (k, r) ← pText ts
  let (v, r') ← pText r
  pure ((k, v), r')

def pKey : P Key := fun ts => do
  let (metric, r0) ← pText ts
  let (name, r1) ← pText r0
  let (ls, r2) ← pList pPair r1
  let (help, r3) ← pText r2
  pure (⟨metric, name, ls, help⟩, r3)

def pEntry : P (Key × Float × Float) := fun ts => do
  let (k, r) ← pKey ts
  let (v, r1) ← pFloat r
  let (t, r2) ← pFloat r1
  pure ((k, v, t), r2)

/-- a file with both views: the basename (for M) and (typ, mode, pid) (for S) -/
def pFile : P (MpFile Float × Spec.Multiprocess.SFile Float) := fun ts => do
  let (bn, r0) ← pText ts
  let (typ, r1) ← pText r0
  let (mode, r2) ← pText r1
  let (pid, r3) ← pText r2
  let (es, r4) ← pList pEntry r3
  pure ((⟨bn, es⟩, ⟨typ, mode, pid, es⟩), r4)

def pRepr : P (Nat × Str) := fun ts => do
  let (b, r) ← pNat ts
  let (t, r') ← pText r
  pure ((b, t), r')

/-! instantiation: values are doubles, bounds are bit patterns of doubles -/

def vops : VOps Float := ⟨0.0, (· + ·), (fun a b => decide (a < b)), (fun a b => decide (a ≤ b)), (fun x => x != 0.0)⟩

def bitsToFloat (b : Nat) : Float := Float.ofBits b.toUInt64

/-- `float(text)` as bits (`-0.0` and `0.0` are different keys here; the harness never uses both in one histogram),
    `<` of the doubles, `floatToGoString` through the supplied `repr` table -/
def bops (reprs : List (Nat × Str)) : BOps Nat :=
  { parse := fun s => pyFloatBits? s
    lt := fun a b => decide (bitsToFloat a < bitsToFloat b)
    fmt := fun b => match reprs.lookup b with
      | some r => Model.Utils.floatToGoString r
      | none => "?unknown-bound".toList }

def encLabels (ls : Labels) : String :=
  " ".intercalate (toString ls.length :: ls.flatMap (fun kv => [encText kv.1, encText kv.2]))

def encFams (fams : List (Str × Str × Str × List (Str × Labels × Float))) : String :=
  " ".intercalate (toString fams.length :: fams.map (fun f =>
    " ".intercalate ([encText f.1, encText f.2.1, encText f.2.2.1, toString f.2.2.2.length] ++
      f.2.2.2.map (fun s => s!"{encText s.1} {encLabels s.2.1} {encFloat s.2.2}"))))

def modelFams (out : List (OutMetric Float)) : List (Str × Str × Str × List (Str × Labels × Float)) :=
  out.map (fun m => (m.name, m.doc, m.typ, m.samples.map (fun s => (s.name, s.labels, s.value))))

def specFams (out : List (Str × Str × Str × List (SKey × Float))) : List (Str × Str × Str × List (Str × Labels × Float)) :=
  out.map (fun m => (m.1, m.2.1, m.2.2.1, m.2.2.2.map (fun s => (s.1.1, s.1.2, s.2))))

def handleMerge (ts : List String) : String :=
  match (do
    let (reprs, r) ← pList pRepr ts
    let (files, r') ← pList pFile r
    if r'.isEmpty then pure (reprs, files) else none) with
  | none => "err bad-request"
  | some (reprs, files) =>
    let bo := bops reprs
    match merge vops bo (files.map (·.1)) with
    | .error e => s!"err {e.name}"
    | .ok out =>
      let spec := Spec.Multiprocess.collect vops bo (files.map (·.2))
      s!"ok {encFams (modelFams out)} | {encFams (specFams spec)}"

def handleDead (ts : List String) : String :=
  match (do
    let (pid, r) ← pText ts
    let (names, r') ← pList pText r
    if r'.isEmpty then pure (pid, names) else none) with
  | none => "err bad-request"
  | some (pid, names) =>
    let files : List (MpFile Float) := names.map (fun n => ⟨n, []⟩)
    let left := markProcessDead pid files
    " ".intercalate ("ok" :: toString left.length :: left.map (fun f => encText f.basename))

/-! C09 histories -/
open PromVerif.Model.Values in
def pOp : P (Ev Float)
  | "W" :: r => do
    let (p, r0) ← pText r
    pure (.spawn p, r0)
  | "D" :: r => do
    let (p, r0) ← pText r
    pure (.dead p, r0)
  | "C" :: r => do
    let (typ, r0) ← pText r
    let (metric, r1) ← pText r0
    let (name, r2) ← pText r1
    let (lns, r3) ← pList pText r2
    let (lvs, r4) ← pList pText r3
    let (help, r5) ← pText r4
    let (mode, r6) ← pText r5
    pure (.op (.construct ⟨typ, metric, name, lns, lvs, help, mode⟩), r6)
  | "I" :: r => do
    let (i, r0) ← pNat r
    let (a, r1) ← pFloat r0
    pure (.op (.inc i a), r1)
  | "S" :: r => do
    let (i, r0) ← pNat r
    let (v, r1) ← pFloat r0
    match r1 with
    | "N" :: r2 => pure (.op (.set i v none), r2)
    | _ => do
      let (t, r2) ← pFloat r1
      pure (.op (.set i v (some t)), r2)
  | "G" :: r => do
    let (i, r0) ← pNat r
    pure (.op (.get i), r0)
  | "P" :: r => do
    let (p, r0) ← pText r
    pure (.op (.setPid p), r0)
  | _ => none

def encKey (k : Key) : String :=
  s!"{encText k.metric} {encText k.name} {encLabels k.labels} {encText k.help}"

def encDisk (disk : List (Str × Model.Values.Store Float)) : String :=
  " ".intercalate (toString disk.length :: disk.map (fun f =>
    " ".intercalate ([encText f.1, toString f.2.length] ++
      f.2.map (fun e => s!"{encKey e.1} {encFloat e.2.1} {encFloat e.2.2}"))))

def runHist (st : Model.Values.St Float) : List (Model.Values.Ev Float) → List String
  | [] => []
  | op :: ops =>
    let (st', g) := Model.Values.wstep vops st op
    let gs := match g with | some x => encFloat x | none => "-"
    s!"{gs} {encDisk st'.disk}" :: runHist st' ops

def handleHist (ts : List String) : String :=
  match (do
    let (pid, r) ← pText ts
    let (ops, r') ← pList pOp r
    if r'.isEmpty then pure (pid, ops) else none) with
  | none => "err bad-request"
  | some (pid, ops) =>
    let steps := runHist (Model.Values.St.init pid) ops
    " ".intercalate ("ok" :: toString steps.length :: steps)

def handle : List String → String
  | "merge" :: ts => handleMerge ts
  | "dead" :: ts => handleDead ts
  | "hist" :: ts => handleHist ts
  | _ => "err bad-op"

end PromVerif.Drv.C08
