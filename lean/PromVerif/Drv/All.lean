import PromVerif.Drv.C03
import PromVerif.Drv.C06
import PromVerif.Drv.C10
import PromVerif.Drv.C13
import PromVerif.Drv.Core
import PromVerif.Drv.Expo
import PromVerif.Drv.C19
namespace PromVerif.Drv

def dispatch (m : String) (args : List String) : String :=
  match m with
  | "c03" => C03.handle args
  | "c06" => C06.handle args
  | "c10" => C10.handle args
  | "c13" => C13.handle args
  | "core" => Core.handle args
  | "expo" => Expo.handle args
  | "c19" => C19.handle args
  | _ => "err unknown-module"

end PromVerif.Drv
