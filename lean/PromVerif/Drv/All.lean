import PromVerif.Drv.C13
import PromVerif.Drv.Core
import PromVerif.Drv.Expo
namespace PromVerif.Drv

def dispatch (m : String) (args : List String) : String :=
  match m with
  | "c13" => C13.handle args
  | "core" => Core.handle args
  | "expo" => Expo.handle args
  | _ => "err unknown-module"

end PromVerif.Drv
