import PromVerif.Drv.C13
namespace PromVerif.Drv

def dispatch (m : String) (args : List String) : String :=
  match m with
  | "c13" => C13.handle args
  | _ => "err unknown-module"

end PromVerif.Drv
