import PromVerif.Drv.C01
import PromVerif.Drv.C03
import PromVerif.Drv.C05
import PromVerif.Drv.C06
import PromVerif.Drv.C10
import PromVerif.Drv.C13
import PromVerif.Drv.Core
import PromVerif.Drv.Expo
import PromVerif.Drv.C19
import PromVerif.Drv.C17
import PromVerif.Drv.C14
import PromVerif.Drv.C18
import PromVerif.Drv.C08
import PromVerif.Drv.C02
import PromVerif.Drv.C16
import PromVerif.Drv.C12
import PromVerif.Drv.Fam
import PromVerif.Drv.Builtins
namespace PromVerif.Drv

def dispatch (m : String) (args : List String) : String :=
  match m with
  | "c01" => C01.handle args
  | "c03" => C03.handle args
  | "c05" => C05.handle args
  | "c06" => C06.handle args
  | "c10" => C10.handle args
  | "c13" => C13.handle args
  | "core" => Core.handle args
  | "expo" => Expo.handle args
  | "c19" => C19.handle args
  | "c17" => C17.handle args
  | "om" => C14.handle args
  | "c18" => C18.handle args
  | "c08" => C08.handle args
  | "c02" => C02.handle args
  | "c16" => C16.handle args
  | "c12" => C12.handle args
  | "fam" => Fam.handle args
  | "bi" => Builtins.handle args
  | _ => "err unknown-module"

end PromVerif.Drv
