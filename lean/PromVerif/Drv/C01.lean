/-
Driver module "c01": a whole history on one metric in one request line.

  c01 run <legacy 0|1> <kind> <name h:> <labelnames> <extra> <ops>
     kind        counter | gauge | summary | histogram | info | enum
     labelnames  `,`-list of h: fields (`.` = none)
     extra       histogram: `,`-list of b:<u64>~h:<repr>      enum: `,`-list of h:<state>      else `.`
     ops         `;`-list of
                   call/<args>/<kws>/<act>/<arg>     args `-` = no labels() call, else `,`-list of pyvals
                                                     kws  `,`-list of h:<key>=<pyval>
                                                     act  touch|inc|dec|set|observe|reset|info|state
                                                     arg  b:<u64> | h:<state> | `,`-list of h:k~h:v / h:k~N | `-`
                   remove/<args>
                   clear
                   mutate/<info|states|buckets>      the CALLER mutates an object it passed earlier (no library call)
     pyval       sh:<hex> | i<int> | bT | bF | N | fh:<hex of str(x)> | th:<hex of str(tuple)> | lh:<hex of str(list)>

  reply:  ok <model observations> <spec observations>       (`;`-list, one per step, step 0 = after construction)
          err <class>                                        (the constructor raised)
     observation   <ok|class|Aliased>@<samples>   (Aliased: the model cannot follow a caller-side mutation, see afterCallerMutation)
                   <ok|class>@<samples>     samples `,`-list of h:<name>!<labels>!b:<u64>, labels `+`-list of h:k=h:v
-/
import PromVerif.Py.Wire
import PromVerif.Model.Metrics
import PromVerif.Spec.Metrics
namespace PromVerif.Drv.C01
open PromVerif PromVerif.Wire PromVerif.Py PromVerif.Model.Metrics

instance : Val Float where
  zero := 0.0
  one := 1.0
  add := (· + ·)
  neg := fun x => -x
  le := fun a b => decide (a ≤ b)
  lt := fun a b => decide (a < b)
  ofNat := Float.ofNat
  inf := 1.0 / 0.0
  beq := fun a b => a == b

def splitList (sep : String) (f : String) : List String :=
  if f = "." then [] else f.splitOn sep

def decPyVal (f : String) : Option PyVal :=
  match f.toList with
  | 's' :: r => (decText (String.ofList r)).map PyVal.str
  | 'i' :: r => (String.ofList r).toInt?.map PyVal.int
  | ['b', 'T'] => some (.bool true)
  | ['b', 'F'] => some (.bool false)
  | ['N'] => some .none
  | 'f' :: r => (decText (String.ofList r)).map PyVal.float
  | 't' :: r => (decText (String.ofList r)).map PyVal.tuple
  | 'l' :: r => (decText (String.ofList r)).map PyVal.list
  | _ => none

def decKw (f : String) : Option (Str × PyVal) :=
  match f.splitOn "=" with
  | [k, v] => do
    let k ← decText k
    let v ← decPyVal v
    pure (k, v)
  | _ => none

def decInfoPair (f : String) : Option (Str × Option Str) :=
  match f.splitOn "~" with
  | [k, v] => do
    let k ← decText k
    if v = "N" then pure (k, none) else do
      let v ← decText v
      pure (k, some v)
  | _ => none

def decBound (f : String) : Option (Float × Str) :=
  match f.splitOn "~" with
  | [b, r] => do
    let b ← decFloat b
    let r ← decText r
    pure (b, r)
  | _ => none

def decAction (act arg : String) : Option (Action Float) :=
  match act with
  | "touch" => some .touch
  | "inc" => (decFloat arg).map Action.inc
  | "dec" => (decFloat arg).map Action.dec
  | "set" => (decFloat arg).map Action.set
  | "observe" => (decFloat arg).map Action.observe
  | "reset" => some .reset
  | "info" => ((splitList "," arg).mapM decInfoPair).map Action.info
  | "state" => (decText arg).map Action.state
  | _ => none

def decOp (f : String) : Option (Op Float) :=
  match f.splitOn "/" with
  | ["call", args, kws, act, arg] => do
    let a ← decAction act arg
    if args = "-" then pure (.call 0 .none a)
    else do
      let vs ← (splitList "," args).mapM decPyVal
      let kw ← (splitList "," kws).mapM decKw
      pure (.call 0 (.labels vs kw) a)
  | ["remove", args] => do
    let vs ← (splitList "," args).mapM decPyVal
    pure (.remove 0 vs)
  | ["clear"] => some (.clear 0)
  | _ => none

/-- a step of a history: a library call, or a caller-side mutation of an object passed earlier -/
inductive DOp
  | op (o : Op Float)
  | mut (c : CallerObject)

def decDOp (f : String) : Option DOp :=
  match f with
  | "mutate/info" => some (.mut .infoDict)
  | "mutate/states" => some (.mut .states)
  | "mutate/buckets" => some (.mut .buckets)
  | _ => (decOp f).map DOp.op

def decKind (kind extra : String) : Option (Kind Float) :=
  match kind with
  | "counter" => some .counter
  | "gauge" => some .gauge
  | "summary" => some .summary
  | "histogram" => ((splitList "," extra).mapM decBound).map Kind.histogram
  | "info" => some .info
  | "enum" => ((splitList "," extra).mapM decText).map Kind.enum
  | _ => none

def encOut : Out → String
  | .ok => "ok"
  | .raised e => e.name

def encSample (s : Sample Float) : String :=
  encText s.name ++ "!" ++
    (if s.labels.isEmpty then "." else "+".intercalate (s.labels.map (fun kv => encText kv.1 ++ "=" ++ encText kv.2)))
    ++ "!" ++ encFloat s.value

def encObs (o : Out) (fams : List (List (Sample Float))) : String :=
  let ss := fams.flatten
  encOut o ++ "@" ++ (if ss.isEmpty then "." else ",".intercalate (ss.map encSample))

/-- model observation after every step -/
def runModel (r : Reg Float) : List DOp → List String
  | [] => []
  | .op op :: ops =>
    let x := step r op
    encObs x.2 (collect x.1) :: runModel x.1 ops
  | .mut c :: ops =>
    match afterCallerMutation r c with
    | some r' => encObs .ok (collect r') :: runModel r' ops
    | none => ("Aliased@" ++ ((encObs .ok (collect r)).splitOn "@").getLast!) :: runModel r ops

/-- spec observation after every step: the reference evaluated on the accepted prefix (a caller-side mutation is no
call: it contributes nothing) -/
def runSpec (decls : List (Decl Float)) (r : Reg Float) (acc : List (Op Float)) : List DOp → List String
  | [] => []
  | .op op :: ops =>
    let x := step r op
    let acc' := acc ++ (acceptedOp r op).toList
    encObs x.2 (Spec.Metrics.collect decls acc') :: runSpec decls x.1 acc' ops
  | .mut _ :: ops => encObs .ok (Spec.Metrics.collect decls acc) :: runSpec decls r acc ops

def handle : List String → String
  | ["run", legacy, kind, name, lns, extra, ops] =>
    match decKind kind extra, decText name, (splitList "," lns).mapM decText, (splitList ";" ops).mapM decDOp with
    | some k, some nm, some labelnames, some ops =>
      match construct (legacy == "1") ⟨nm, k, labelnames⟩ with
      | .error e => "err " ++ e.name
      | .ok d =>
        let r : Reg Float := Reg.fresh [d]
        let m := encObs .ok (collect r) :: runModel r ops
        let s := encObs .ok (Spec.Metrics.collect [d] []) :: runSpec [d] r [] ops
        "ok " ++ ";".intercalate m ++ " " ++ ";".intercalate s
    | _, _, _, _ => "err bad-field"
  | _ => "err bad-op"

end PromVerif.Drv.C01
