/-
Token-stream codec for metric families on the line protocol (see harness/famcodec.py):

  fams   := N family*
  family := h:name h:doc h:typ h:unit M sample*
  sample := h:name L (h:k h:v)* h:valueRepr ts ex
  ts     := - | i:<int>:<millis> | f:<hexrepr>:<millis> | s:<sec>:<nsec>:<millis>
  ex     := - | E L (h:k h:v)* h:valueRepr tse
  tse    := - | i:<int> | f:<hexrepr> | s:<sec>:<nsec>
-/
import PromVerif.Py.Wire
import PromVerif.Model.Sample

namespace PromVerif.Drv.Codec
open PromVerif PromVerif.Wire PromVerif.Model PromVerif.Py

abbrev P (α : Type) := List String → Option (α × List String)

def pText : P Str
  | t :: r => (decText t).map (·, r)
  | [] => none

def pNat : P Nat
  | t :: r => t.toNat?.map (·, r)
  | [] => none

def pRepeat {α : Type} (p : P α) : Nat → P (List α)
  | 0, ts => some ([], ts)
  | n + 1, ts => do
    let (a, r) ← p ts
    let (as, r') ← pRepeat p n r
    pure (a :: as, r')

def pPair : P (Str × Str) := fun ts => do
  let (k, r) ← pText ts
  let (v, r') ← pText r
  pure ((k, v), r')

def pLabels : P (List (Str × Str)) := fun ts => do
  let (n, r) ← pNat ts
  pRepeat pPair n r

def decTsCore (parts : List String) : Option Ts :=
  match parts with
  | ["i", n] => n.toInt?.map Ts.int
  | ["f", h] => (decText ("h:" ++ h)).map Ts.flt
  | ["s", a, b] => do pure (Ts.stamp (← a.toInt?) (← b.toInt?))
  | _ => none

def pTsIn : P (Option TsIn)
  | "-" :: r => some (none, r)
  | t :: r =>
    let parts := t.splitOn ":"
    match parts.getLast?, decTsCore parts.dropLast with
    | some m, some ts => m.toInt?.map (fun mi => (some ⟨ts, mi⟩, r))
    | _, _ => none
  | [] => none

def pTsE : P (Option Ts)
  | "-" :: r => some (none, r)
  | t :: r => (decTsCore (t.splitOn ":")).map (fun ts => (some ts, r))
  | [] => none

def pExemplar : P (Option Exemplar)
  | "-" :: r => some (none, r)
  | "E" :: r => do
    let (ls, r1) ← pLabels r
    let (v, r2) ← pText r1
    let (t, r3) ← pTsE r2
    pure (some ⟨ls, v, t⟩, r3)
  | _ => none

def pSample : P Sample := fun ts => do
  let (name, r0) ← pText ts
  let (ls, r1) ← pLabels r0
  let (v, r2) ← pText r1
  let (t, r3) ← pTsIn r2
  let (e, r4) ← pExemplar r3
  pure (⟨name, ls, v, t, e⟩, r4)

def pFamily : P Family := fun ts => do
  let (name, r0) ← pText ts
  let (doc, r1) ← pText r0
  let (typ, r2) ← pText r1
  let (unit, r3) ← pText r2
  let (m, r4) ← pNat r3
  let (ss, r5) ← pRepeat pSample m r4
  pure (⟨name, doc, typ, unit, ss⟩, r5)

def pFamilies : P (List Family) := fun ts => do
  let (n, r) ← pNat ts
  pRepeat pFamily n r

def decFamilies (ts : List String) : Option (List Family) :=
  match pFamilies ts with
  | some (fs, []) => some fs
  | _ => none

end PromVerif.Drv.Codec
