import PromVerif.Py.Wire
import PromVerif.Py.Float
import PromVerif.Model.ParseCore
namespace PromVerif.Drv.Core
open PromVerif PromVerif.Wire PromVerif.Py PromVerif.Model.ParseCore

def chsOf (f : String) : Option (Char → Bool) :=
  if f == "-" then some isAsciiSpace
  else (decText f).map (fun cs => fun c => cs.contains c)

def optNat : Option Nat → String
  | some n => toString n
  | none => "-1"

def encLabels (ls : List (Str × Str)) : String :=
  encList (ls.map (fun kv => encText kv.1 ++ "=" ++ encText kv.2))

def encNum : Num → String
  | .int n => s!"i:{n}"
  | .flt b => if b % 2 ^ 63 > 0x7FF0000000000000 then "b:9221120237041090560" else s!"b:{b}"

def pyFloatBitsOpt (s : Str) : Option Nat := pyFloatBits? s

def handle : List String → String
  | ["ice", f, n] => match decText f, n.toNat? with
    | some s, some k => "ok " ++ toString (isCharacterEscaped s k)
    | _, _ => "err bad-field"
  | ["nuc", f, c, st] => match decText f, chsOf c, st.toNat? with
    | some s, some chs, some k => "ok " ++ optNat (nextUnquotedChar s chs k)
    | _, _, _ => "err bad-field"
  | ["luc", f, c] => match decText f, chsOf c with
    | some s, some chs => "ok " ++ optNat (lastUnquotedChar s chs)
    | _, _ => "err bad-field"
  | ["sq", f, c, m] => match decText f, chsOf c, m.toNat? with
    | some s, some chs, some k => "ok " ++ encList ((splitQuoted s chs k).map encText)
    | _, _, _ => "err bad-field"
  | ["uu", f] => match decText f with
    | some s => match unquoteUnescape s with
      | .ok (t, q) => s!"ok {encText t} {q}"
      | .error e => "err " ++ e.name
    | none => "err bad-field"
  | ["nt", f, om] => match decText f with
    | some s => match nextTerm s (om == "1") with
      | .ok (a, b) => s!"ok {encText a} {encText b}"
      | .error e => "err " ++ e.name
    | none => "err bad-field"
  | ["pl", leg, f, om] => match decText f with
    | some s => match parseLabels (leg == "1") s (om == "1") with
      | .ok ls => "ok " ++ encLabels ls
      | .error e => "err " ++ e.name
    | none => "err bad-field"
  | ["pv", f] => match decText f with
    | some s => match parseValue pyInt? pyFloatBitsOpt s with
      | .ok n => "ok " ++ encNum n
      | .error e => "err " ++ e.name
    | none => "err bad-field"
  | ["int", f] => match decText f with
    | some s => match pyInt? s with
      | some n => s!"ok {n}"
      | none => "err ValueError"
    | none => "err bad-field"
  | ["float", f] => match decText f with
    | some s => match pyFloatBits? s with
      | some b => "ok " ++ encNum (.flt b)
      | none => "err ValueError"
    | none => "err bad-field"
  | ["resc", f] => match decText f with
    | some s => "ok " ++ encText (replaceEscaping s)
    | none => "err bad-field"
  | ["rhelp", f] => match decText f with
    | some s => "ok " ++ encText (replaceHelpEscaping s)
    | none => "err bad-field"
  | _ => "err bad-op"

end PromVerif.Drv.Core
