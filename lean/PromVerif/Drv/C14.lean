/-
Driver module `om`: the OpenMetrics parser model instantiated with CPython's numbers.

  om parse <legacy 0|1> h:<document>   → ok <families> | err <Class>
  om ts h:<s>                          → ok <ts> | err <Class>                    (`_parse_timestamp`)
  om sample [<legacy>] h:<line>        → ok <sample> | err <Class>                (`_parse_sample`)
  om remaining [<legacy>] h:<text>     → ok <value> <ts> <exemplar> | err <Class> (`_parse_remaining_text`)
  om help h:<s>                        → ok h:<text>                              (`_unescape_help`)
  om nh [<legacy>] h:<line>            → ok - | ok <sample> | err <Class>         (`_parse_nh_sample`, histogram suffixes)
  om lines h:<document>                → ok <h:line;…>                            (`for line in fd`, newline cut)

  families := N family*          family := h:name h:doc h:typ h:unit M sample*
  sample   := h:name labels value ts ex nh
  labels   := - | L (h:k h:v)*   (sorted by key)
  value    := - | i:<int> | b:<bits>          ts := - | s:<sec>:<nsec> | f:<bits>
  ex       := - | E labels value ts
  nh       := - | N <count> <sum> <schema> b:<zero_threshold> <zero_count> spans spans deltas deltas
  spans    := - | . | a:b,c:d    deltas := - | . | 1,-2
-/
import PromVerif.Py.Wire
import PromVerif.Py.Float
import PromVerif.Model.OMParse
namespace PromVerif.Drv.C14
open PromVerif PromVerif.Wire PromVerif.Py PromVerif.Model.ParseCore PromVerif.Model.OMParse
open PromVerif.Generated.OMParse

def fOf (b : Nat) : Float := Float.ofBits b.toUInt64

/-- exact comparison of a Python int with a double given by its bits (`none` for NaN) -/
def cmpIntFlt (n : Int) (b : Nat) : Option Ordering :=
  let neg := b / 2 ^ 63 % 2 == 1
  let e := b / 2 ^ 52 % 2048
  let frac := b % 2 ^ 52
  if e == 2047 then
    if frac != 0 then none else some (if neg then .gt else .lt)
  else
    let m : Int := Int.ofNat (if e == 0 then frac else frac + 2 ^ 52)
    let m := if neg then -m else m
    let ex : Int := Int.ofNat (if e == 0 then 1 else e) - 1075
    if ex ≥ 0 then some (compare n (m * 2 ^ ex.toNat))
    else some (compare (n * 2 ^ (-ex).toNat) m)

def swapOrd : Ordering → Ordering
  | .lt => .gt | .gt => .lt | .eq => .eq

/-- Python's comparison of two numbers (`none` = unordered: a NaN is involved) -/
def numCmp : Num → Num → Option Ordering
  | .int a, .int b => some (compare a b)
  | .int a, .flt b => cmpIntFlt a b
  | .flt a, .int b => (cmpIntFlt b a).map swapOrd
  | .flt a, .flt b =>
    let x := fOf a; let y := fOf b
    if x < y then some .lt else if x > y then some .gt else if x == y then some .eq else none

def inRanges (rs : List (Nat × Nat)) (c : Char) : Bool := rs.any (fun r => r.1 ≤ c.toNat && c.toNat ≤ r.2)

/-- `float(n)` for a Python int as a bit pattern; `none` = OverflowError -/
def intToFloatBits (n : Int) : Option Nat :=
  let mag := roundToDoubleBits n.natAbs 1
  if mag ≥ 0x7FF0000000000000 then none
  else some (if n < 0 then mag + 2 ^ 63 else mag)

/-- `Timestamp.__float__`: `float(self.sec) + float(self.nsec) / 1e9` -/
def tsFloatBits (sec nsec : Int) : Option Nat :=
  match intToFloatBits sec, intToFloatBits nsec with
  | some a, some b => some (fOf a + fOf b / 1000000000.0).toBits.toNat
  | _, _ => none

/-- CPython's numbers and `re` classes -/
def cpython (legacy : Bool) : Params where
  pyInt := pyInt?
  pyFloat := pyFloatBits?
  lt a b := numCmp a b == some .lt
  le a b := numCmp a b == some .lt || numCmp a b == some .eq
  eq a b := numCmp a b == some .eq
  isNaN b := (fOf b).isNaN
  isInf b := (fOf b).isInf
  isPosInf b := b == 0x7FF0000000000000
  isInteger b := (fOf b).isFinite && (fOf b).floor == fOf b
  intTooBig n := n.natAbs ≥ 2 ^ 1024 - 2 ^ 970
  tsFloat := tsFloatBits
  reW := inRanges reWordRanges
  reS := inRanges reSpaceRanges
  reD := inRanges reDigitRanges
  legacy := legacy

def encBits (b : Nat) : String :=
  if b % 2 ^ 63 > 0x7FF0000000000000 then "b:9221120237041090560" else s!"b:{b}"

def encNum : Num → String
  | .int n => s!"i:{n}"
  | .flt b => encBits b

def encOptNum : Option Num → String
  | some n => encNum n
  | none => "-"

def encLabels (ls : Labels) : List String :=
  "L" :: toString ls.length :: (sortByKey ls).flatMap (fun kv => [encText kv.1, encText kv.2])

def encOptLabels : Option Labels → List String
  | some ls => encLabels ls
  | none => ["-"]

def encTs : Option OTs → String
  | none => "-"
  | some (.stamp s n) => s!"s:{s}:{n}"
  | some (.flt b) => "f:" ++ (encBits b).drop 2

def encExemplar : Option OExemplar → List String
  | none => ["-"]
  | some e => "E" :: encLabels e.labels ++ [encNum e.value, encTs e.ts]

def encSpans : Option (List (Int × Int)) → String
  | none => "-"
  | some [] => "."
  | some l => ",".intercalate (l.map (fun p => s!"{p.1}:{p.2}"))

def encDeltas : Option (List Int) → String
  | none => "-"
  | some [] => "."
  | some l => ",".intercalate (l.map toString)

def encNh : Option NatHist → List String
  | none => ["-"]
  | some h => ["N", toString h.count, toString h.sum, toString h.schema, encBits h.zeroThreshold, toString h.zeroCount,
               encSpans h.posSpans, encSpans h.negSpans, encDeltas h.posDeltas, encDeltas h.negDeltas]

def encSample (s : OSample) : List String :=
  encText s.name :: encOptLabels s.labels ++ [encOptNum s.value, encTs s.ts] ++ encExemplar s.exemplar ++ encNh s.nh

def encFamily (f : OFamily) : List String :=
  [encText f.name, encText f.doc, encText f.typ, encText f.unit, toString f.samples.length] ++ f.samples.flatMap encSample

def encFamilies (fs : List OFamily) : String :=
  " ".intercalate (toString fs.length :: fs.flatMap encFamily)

def reply {α : Type} (enc : α → String) : PyM α → String
  | .ok a => "ok " ++ enc a
  | .error e => "err " ++ e.name

def histSuffixes : List Str := (lookupTable tHistogram typeSuffixes).getD []

def withText (f : String) (k : Str → String) : String :=
  match decText f with
  | some s => k s
  | none => "err bad-field"

def handle : List String → String
  | ["parse", leg, f] => withText f fun s => reply encFamilies (omParse (cpython (leg == "1")) s)
  | ["ts", f] => withText f fun s => reply encTs (parseTimestamp (cpython false) s)
  | ["help", f] => withText f fun s => "ok " ++ encText (unescapeHelp s)
  | ["lines", f] => withText f fun s => "ok " ++ encList ((docLines s).map encText)
  | ["sample", f] => withText f fun s => reply (fun x => " ".intercalate (encSample x)) (parseSample (cpython false) s)
  | ["sample", leg, f] => withText f fun s =>
      reply (fun x => " ".intercalate (encSample x)) (parseSample (cpython (leg == "1")) s)
  | ["remaining", f] => withText f fun s =>
      reply (fun (x : Num × Option OTs × Option OExemplar) => " ".intercalate ([encNum x.1, encTs x.2.1] ++ encExemplar x.2.2))
        (parseRemainingText (cpython false) s)
  | ["remaining", leg, f] => withText f fun s =>
      reply (fun (x : Num × Option OTs × Option OExemplar) => " ".intercalate ([encNum x.1, encTs x.2.1] ++ encExemplar x.2.2))
        (parseRemainingText (cpython (leg == "1")) s)
  | ["nh", f] => withText f fun s =>
      reply (fun (x : Option OSample) => match x with | none => "-" | some y => " ".intercalate (encSample y))
        (parseNhSample (cpython false) s histSuffixes)
  | ["nh", leg, f] => withText f fun s =>
      reply (fun (x : Option OSample) => match x with | none => "-" | some y => " ".intercalate (encSample y))
        (parseNhSample (cpython (leg == "1")) s histSuffixes)
  | ["nhstruct", f] => withText f fun s => reply (fun x => " ".intercalate (encNh (some x))) (parseNhStruct (cpython false) s)
  | _ => "err bad-op"

end PromVerif.Drv.C14
