/-
Driver module "bi" (serves C07, built-in collectors part): `collect()` of `GCCollector`, `PlatformCollector` and
`ProcessCollector` through `Model/Builtins.lean`; values are opaque tokens.

request   bi gc <legacy 0|1> <stats>
            stats     . | <stat>;<stat>…        one per generation
            stat      s<hex key>=<tok>+…        the entries of the dict
          bi platform <legacy> <pairs> <N|pairs>
            pairs     s<hex key>=s<hex value>+… what `_info()` / `_java()` hold (N: system is not "Java")
          bi process <legacy> <s<hex namespace>> <btime 0|1> <stat> <limits> <fds>
            stat      ok | E<ErrorClass>        reading `<pid>/stat` (values become the token of their variable)
            limits    some | none | E<ErrorClass>
            fds       ok | E<ErrorClass>
reply     ok <ErrorClass>
          ok ok <fam>|<fam>…   (- for no family)   fam as in module "fam" (no add_metric error list: `.`)
-/
import PromVerif.Drv.Fam
import PromVerif.Model.Builtins

set_option autoImplicit false

namespace PromVerif.Drv.Builtins
open PromVerif PromVerif.Py PromVerif.Model.Families PromVerif.Model.Builtins
open PromVerif.Model.Registry (Name)
open PromVerif.Drv.C06 (listOf joinOr)
open PromVerif.Drv.Fam (decStr encFam tail1)

def encFams (fs : List (Fam String)) : String := joinOr "|" "-" (fs.map fun f => encFam f [])

def encBErr : BErr → String
  | .py e => e.name
  | .unboundLocal => "UnboundLocalError"

def allErrs : List PyErr :=
  [.valueError, .keyError, .indexError, .typeError, .attributeError, .runtimeError, .structError, .overflowError,
   .unicodeError, .fileNotFound, .osError, .timeout]

def decErr (f : String) : Option PyErr :=
  if f.startsWith "E" then allErrs.find? (fun e => e.name = tail1 f) else none

def lookup {β : Type} (dflt : β) (tbl : List (Name × β)) (k : Name) : β :=
  match tbl.find? (fun kv => kv.1 == k) with
  | some kv => kv.2
  | none => dflt

def decTokDict (f : String) : Option (Name → String) := do
  let tbl ← (listOf "+" "" f).mapM fun e =>
    match e.splitOn "=" with
    | [k, v] => do pure (← decStr k, v)
    | _ => none
  pure (lookup "missing" tbl)

def decStrDict (f : String) : Option (Name → Name) := do
  let tbl ← (listOf "+" "" f).mapM fun e =>
    match e.splitOn "=" with
    | [k, v] => do pure (← decStr k, ← decStr v)
    | _ => none
  pure (lookup [] tbl)

def reply (r : Except BErr (List (Fam String))) : String :=
  match r with
  | .error e => "ok " ++ encBErr e
  | .ok fs => "ok ok " ++ encFams fs

def gcReq (legacy stats : String) : Option String := do
  let env : Env := ⟨legacy = "1", fun _ => none⟩
  let st ← (listOf ";" "." stats).mapM decTokDict
  pure (reply (gcCollect env st))

def platformReq (legacy info java : String) : Option String := do
  let env : Env := ⟨legacy = "1", fun _ => none⟩
  let i ← decStrDict info
  let j ← if java = "N" then some none else (decStrDict java).map some
  match platformInit env (fun n => "i" ++ toString n) ⟨i, j⟩ with
  | .error e => pure ("ok " ++ e.name)
  | .ok m => pure (reply (.ok (platformCollect m)))

def processReq (legacy ns btime stat limits fds : String) : Option String := do
  let env : Env := ⟨legacy = "1", fun _ => none⟩
  let n ← decStr ns
  let st : PyM (Name → String) ← if stat = "ok" then some (.ok fun k => String.ofList k) else (decErr stat).map .error
  let lim : PyM (Option String) ←
    if limits = "some" then some (.ok (some "max")) else if limits = "none" then some (.ok none)
    else (decErr limits).map .error
  let fd : PyM String ← if fds = "ok" then some (.ok "nfds") else (decErr fds).map .error
  pure (reply (processCollect env ⟨n, btime = "1", st, lim, fd⟩))

def handle : List String → String
  | ["gc", legacy, stats] => (gcReq legacy stats).getD "err bad-field"
  | ["platform", legacy, info, java] => (platformReq legacy info java).getD "err bad-field"
  | ["process", legacy, ns, btime, stat, limits, fds] => (processReq legacy ns btime stat limits fds).getD "err bad-field"
  | _ => "err bad-op"

end PromVerif.Drv.Builtins
