/-
Driver module "c10" (serves C10 and C11).

  c10 hist <initSize> <pageSize> <ops>      ops: `;`-separated  w,<hexkey>,<v>,<t> | r,<hexkey> | o   (`.` = none)
      → ok <obs0>;<obs1>;…   one observation after the constructor and after every operation; a raising step ends
        the list with  !<Class>
        obs = <handle reader>,<file reader>,<spec store>,<used>,<capacity>,x:<file[0:used]>,<tail all zero 0|1>,<read_value result|->
  c10 cuts <initSize> <pageSize> <ops>
      → ok <cut0>;<cut1>;…   cut k = the file system after the first k effects of the history
        cut = <effect just applied>,<file>,<file reader>,<reopen>,<spec classification>
  c10 cont <initSize> <pageSize> <ops> <k> <ops2>
      → ok <obs0>;<obs1>;…   a NEW writer opens the file left behind after the first k effects of the history `ops` and
        runs the continuation `ops2`; observations as for `hist` (obs0 = after the constructor; the spec column starts
        from what the reopened store holds); `ok absent` when there is no file yet
  c10 gen2 <initSize> <pageSize> <ops> <k> <ops2>
      → ok <cut0>;<cut1>;…   second generation: a NEW writer opens the file left after the first k effects of `ops`, runs
        `ops2`; cut j = the file after the first j effects of THAT writer (cut0 = the file it found); columns as for
        `cuts`, the classification is relative to what the new writer found (p<j> / i<j> over ops2)
  c10 listed <pageSize> <entries>            entries `;`-separated  <hex typ>:<hex mode>:<x:hex content | v (vanished)>
      → ok <number of files read> | ok !<Class>      the collector's listing → read loop
  c10 read2 <pageSize> x:<hex1> x:<hex2>     → the file reader whose first read() sees file 1 and second read() file 2
  c10 readfile <pageSize> x:<hex>           → the file reader on arbitrary bytes
  c10 open <initSize> x:<hex>               → the constructor on arbitrary bytes, then read_all_values()
  c10 padded <n>                            → reader's padded_len, writer's pad count
-/
import PromVerif.Py.Wire
import PromVerif.Model.MmapDict
import PromVerif.Spec.MmapDict
namespace PromVerif.Drv.C10
open PromVerif PromVerif.Wire PromVerif.Model.MmapDict

def sep (s : String) (xs : List String) : String := if xs.isEmpty then "." else s.intercalate xs

def showTriples (xs : List (Key × UInt64 × UInt64)) : String :=
  sep "+" (xs.map fun (k, v, t) => s!"{bytesToHex (encodeKey k)}:{v.toNat}:{t.toNat}")

def showItems (r : Py.PyM (List Item)) : String :=
  match r with
  | .ok xs => showTriples (xs.map fun (k, v, t, _) => (k, v, t))
  | .error e => "!" ++ e.name

def showRes (r : Py.PyM (List (Key × UInt64 × UInt64))) : String :=
  match r with
  | .ok xs => showTriples xs
  | .error e => "!" ++ e.name

def decKey (h : String) : Option Key :=
  match hexToBytes h.toList with
  | some bs => match decodeKey bs with
    | .ok k => some k
    | .error _ => none
  | none => none

def decOp (f : String) : Option Op :=
  match f.splitOn "," with
  | ["w", k, v, t] => do
      let k ← decKey k
      let v ← v.toNat?
      let t ← t.toNat?
      pure (.write k (UInt64.ofNat v) (UInt64.ofNat t))
  | ["r", k] => do
      let k ← decKey k
      pure (.read k)
  | ["o"] => some .reopen
  | _ => none

def decOps (f : String) : Option (List Op) := (decList f).mapM decOp

def toSpec : Op → Spec.MmapDict.Op
  | .write k v t => .write k v t
  | .read k => .read k
  | .reopen => .reopen

def allZero (bs : Bytes) : Bool := bs.all (· == 0)

def obs (pageSize : Nat) (d : MmapedDict) (s : Spec.MmapDict.Store) (rv : String) : String :=
  ",".intercalate [showRes (readAllValues d), showItems (readAllValuesFromFile pageSize (close d)), showTriples s,
    toString d.used, toString d.capacity, encBytes (d.file.take d.used),
    (if allZero (d.file.drop d.used) then "1" else "0"), rv]

def histLoop (initSize pageSize : Nat) : MmapedDict → Spec.MmapDict.Store → List Op → List String → List String
  | _, _, [], acc => acc.reverse
  | d, s, op :: ops, acc =>
    let s' := Spec.MmapDict.step s (toSpec op)
    match op with
    | .read k =>
      match readValue d k with
      | .ok ((v, t), d', _) => histLoop initSize pageSize d' s' ops (obs pageSize d' s' s!"{v.toNat}:{t.toNat}" :: acc)
      | .error e => (("!" ++ e.name) :: acc).reverse
    | _ =>
      match step initSize d op with
      | .ok (d', _) => histLoop initSize pageSize d' s' ops (obs pageSize d' s' "-" :: acc)
      | .error e => (("!" ++ e.name) :: acc).reverse

def showEffect : Effect → String
  | .createEmpty => "C"
  | .truncate n => s!"T{n}"
  | .sliceWrite p bs => s!"S{p}:{bytesToHex bs}"

/-- the content up to the last non-zero byte, and the length -/
def showFile : Option Bytes → String
  | none => "absent"
  | some f =>
    let keep := (f.reverse.dropWhile (· == 0)).reverse
    s!"{f.length}:{bytesToHex keep}"

def eqStore (a b : Spec.MmapDict.Store) : Bool := a == b

/-- which prefix state (if any) a reader result is: `p<j>` = state after j operations, `i<j>` = that plus the next
operation's new key at zero -/
def classifyFrom (s0 : Spec.MmapDict.Store) (ops : List Spec.MmapDict.Op) (r : Spec.MmapDict.Store) : String :=
  let js := List.range (ops.length + 1)
  match js.find? (fun j => eqStore r (Spec.MmapDict.run s0 (ops.take j))) with
  | some j => s!"p{j}"
  | none =>
    match js.find? (fun j =>
      match (ops.drop j).head?.bind Spec.MmapDict.Op.key? with
      | some k => !(Spec.MmapDict.run s0 (ops.take j)).has k && eqStore r (Spec.MmapDict.run s0 (ops.take j) ++ [(k, 0, 0)])
      | none => false) with
    | some j => s!"i{j}"
    | none => "none"

def classify (ops : List Spec.MmapDict.Op) (r : Spec.MmapDict.Store) : String :=
  let js := List.range (ops.length + 1)
  match js.find? (fun j => eqStore r (Spec.MmapDict.run [] (ops.take j))) with
  | some j => s!"p{j}"
  | none =>
    match js.find? (fun j =>
      match (ops.drop j).head?.bind Spec.MmapDict.Op.key? with
      | some k => !(Spec.MmapDict.run [] (ops.take j)).has k && eqStore r (Spec.MmapDict.run [] (ops.take j) ++ [(k, 0, 0)])
      | none => false) with
    | some j => s!"i{j}"
    | none => "none"

def showCut (initSize pageSize : Nat) (sops : List Spec.MmapDict.Op) (eff : String) (f : Option Bytes) : String :=
  match f with
  | none => s!"{eff},absent,-,-,-"
  | some bytes =>
    let rd := readAllValuesFromFile pageSize bytes
    let cls := match rd with
      | .ok xs => classify sops (xs.map fun ((k, v, t, _) : Item) => (k, v, t))
      | .error _ => "-"
    let ro := match init initSize bytes with
      | .ok (d, _) => s!"ok:{d.used}:{d.capacity}:{d.positions.length}:{showRes (readAllValues d)}"
      | .error e => "!" ++ e.name
    s!"{eff},{showFile f},{showItems rd},{ro},{cls}"

def showCutFrom (initSize pageSize : Nat) (s0 : Spec.MmapDict.Store) (sops : List Spec.MmapDict.Op) (eff : String)
    (f : Option Bytes) : String :=
  match f with
  | none => s!"{eff},absent,-,-,-"
  | some bytes =>
    let rd := readAllValuesFromFile pageSize bytes
    let cls := match rd with
      | .ok xs => classifyFrom s0 sops (xs.map fun ((k, v, t, _) : Item) => (k, v, t))
      | .error _ => "-"
    let ro := match init initSize bytes with
      | .ok (d, _) => s!"ok:{d.used}:{d.capacity}:{d.positions.length}:{showRes (readAllValues d)}"
      | .error e => "!" ++ e.name
    s!"{eff},{showFile f},{showItems rd},{ro},{cls}"

def cutsLoopFrom (initSize pageSize : Nat) (s0 : Spec.MmapDict.Store) (sops : List Spec.MmapDict.Op) :
    Option Bytes → List Effect → List String → List String
  | _, [], acc => acc.reverse
  | f, e :: es, acc =>
    let f' := applyEffect f e
    cutsLoopFrom initSize pageSize s0 sops f' es (showCutFrom initSize pageSize s0 sops (showEffect e) f' :: acc)

def decListed (f : String) : Option Listed :=
  match f.splitOn ":" with
  | [t, m, "v"] => do
      let t ← decKey t
      let m ← decKey m
      pure ⟨t, m, none⟩
  | [t, m, "x", h] => do
      let t ← decKey t
      let m ← decKey m
      let b ← hexToBytes h.toList
      pure ⟨t, m, some b⟩
  | _ => none

def cutsLoop (initSize pageSize : Nat) (sops : List Spec.MmapDict.Op) : Option Bytes → List Effect → List String → List String
  | _, [], acc => acc.reverse
  | f, e :: es, acc =>
    let f' := applyEffect f e
    cutsLoop initSize pageSize sops f' es (showCut initSize pageSize sops (showEffect e) f' :: acc)

def handle : List String → String
  | ["hist", isz, psz, opsF] =>
    match isz.toNat?, psz.toNat?, decOps opsF with
    | some initSize, some pageSize, some ops =>
      match init initSize [] with
      | .ok (d0, _) => "ok " ++ ";".intercalate (histLoop initSize pageSize d0 [] ops [obs pageSize d0 [] "-"])
      | .error e => "ok !" ++ e.name
    | _, _, _ => "err bad-field"
  | ["cuts", isz, psz, opsF] =>
    match isz.toNat?, psz.toNat?, decOps opsF with
    | some initSize, some pageSize, some ops =>
      match run initSize ops with
      | .ok ((_, effs) : MmapedDict × List Effect) =>
        let sops := ops.map toSpec
        "ok " ++ ";".intercalate (cutsLoop initSize pageSize sops none effs [showCut initSize pageSize sops "-" none])
      | .error e => "err " ++ e.name
    | _, _, _ => "err bad-field"
  | ["cont", isz, psz, opsF, kF, contF] =>
    match isz.toNat?, psz.toNat?, decOps opsF, kF.toNat?, decOps contF with
    | some initSize, some pageSize, some ops, some k, some cont =>
      match run initSize ops with
      | .ok ((_, effs) : MmapedDict × List Effect) =>
        match applyEffects none (effs.take k) with
        | none => "ok absent"
        | some file =>
          match init initSize file with
          | .ok (d0, _) =>
            let s0 : Spec.MmapDict.Store := match readAllValues d0 with
              | .ok xs => xs
              | .error _ => []
            "ok " ++ ";".intercalate (histLoop initSize pageSize d0 s0 cont [obs pageSize d0 s0 "-"])
          | .error e => "ok !" ++ e.name
      | .error e => "err " ++ e.name
    | _, _, _, _, _ => "err bad-field"
  | ["gen2", isz, psz, opsF, kF, contF] =>
    match isz.toNat?, psz.toNat?, decOps opsF, kF.toNat?, decOps contF with
    | some initSize, some pageSize, some ops, some k, some cont =>
      match run initSize ops with
      | .ok ((_, effs) : MmapedDict × List Effect) =>
        let f := applyEffects none (effs.take k)
        match genRun initSize f cont with
        | .ok ((_, effs2) : MmapedDict × List Effect) =>
          let s0 : Spec.MmapDict.Store := match f with
            | none => []
            | some b => match readAllValuesFromFile pageSize b with
              | .ok xs => xs.map fun ((k, v, t, _) : Item) => (k, v, t)
              | .error _ => []
          let sops := cont.map toSpec
          "ok " ++ ";".intercalate (cutsLoopFrom initSize pageSize s0 sops f effs2 [showCutFrom initSize pageSize s0 sops "-" f])
        | .error e => "ok !" ++ e.name
      | .error e => "err " ++ e.name
    | _, _, _, _, _ => "err bad-field"
  | ["listed", psz, entries] =>
    match psz.toNat?, (decList entries).mapM decListed with
    | some pageSize, some ls =>
      match readMetricsListed pageSize ls with
      | .ok r => s!"ok {r.length}"
      | .error e => "ok !" ++ e.name
    | _, _ => "err bad-field"
  | ["read2", psz, x1, x2] =>
    match psz.toNat?, decBytes x1, decBytes x2 with
    | some pageSize, some b1, some b2 => "ok " ++ showItems (readAllValuesFromFile2 pageSize b1 b2)
    | _, _, _ => "err bad-field"
  | ["readfile", psz, x] =>
    match psz.toNat?, decBytes x with
    | some pageSize, some bs => "ok " ++ showItems (readAllValuesFromFile pageSize bs)
    | _, _ => "err bad-field"
  | ["open", isz, x] =>
    match isz.toNat?, decBytes x with
    | some initSize, some bs =>
      match init initSize bs with
      | .ok (d, _) => s!"ok {d.used},{d.capacity},{showRes (readAllValues d)},{sep "+" (d.positions.map fun (k, p) => s!"{bytesToHex (encodeKey k)}:{p}")}"
      | .error e => "ok !" ++ e.name
    | _, _ => "err bad-field"
  | ["padded", n] =>
    match n.toNat? with
    | some n => s!"ok {Generated.Mmap.paddedLenReader n} {Generated.Mmap.padCountWriter n}"
    | none => "err bad-field"
  | _ => "err bad-op"

end PromVerif.Drv.C10
