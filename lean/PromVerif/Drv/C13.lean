import PromVerif.Py.Wire
import PromVerif.Model.Utils
import PromVerif.Spec.Decimal
namespace PromVerif.Drv.C13
open PromVerif PromVerif.Wire

/-- the spec's answer for a plain positive repr with more than six integer digits, `-` otherwise -/
def specOf (s : List Char) : String :=
  match Py.splitFirst '.' s with
  | (i0 :: I', some F) =>
    if Spec.allDigits (i0 :: I') && Spec.allDigits F && decide (6 ≤ I'.length) && F ≠ [] && i0 ≠ '0' then
      encText (Spec.goFormat i0 (I' ++ F) I'.length)
    else "-"
  | _ => "-"

def denoteStr (s : List Char) : String :=
  match Spec.denote s with
  | some d => s!"{if d.neg then 1 else 0},{d.m},{d.e}"
  | none => "-"

def handle : List String → String
  | ["go", f] =>
    match decText f with
    | some s =>
      let out := Model.Utils.floatToGoString s
      s!"ok {encText out} {specOf s} {denoteStr s} {denoteStr out}"
    | none => "err bad-field"
  | _ => "err bad-op"

end PromVerif.Drv.C13
