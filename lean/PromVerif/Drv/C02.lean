/-
Driver module "c02": the outcome set of a small multi-threaded program under the interleaving semantics of
`Model/Conc.lean`, at SKELETON granularity, with the code of every call taken from `Generated/Locks.lean` (so a source
mutation that changes a skeleton changes the outcome set).

request   c02 outcomes <backend> <world> <program>
  backend   mutex | mmap
  world     which metrics are registered when the program starts: letters `c` (unlabelled counter = value object 0) and/or
            `p` (labelled counter = parent 0, label values 0/1, child for label value k = value object 10+k); `q` = `p` whose
            children for label values 0 and 1 already exist (ids 900, 901) when the threads start; `v` = the value objects 0 and 1
            hold 5 when the threads start; `-` for none
  program   threads separated by `|`, calls by `,`:
              inc:o:a   set:o:a   get:o   lab:k   linc:k:a   rem:k   clr   reg:c   unreg:c   col   rcol:c   rrcol:c
            (rcol:c = registry.collect() with a collector that registers c, unregisters c and does a restricted lookup from
             inside its collect(); rrcol:c = registry.restricted_registry([its name]).collect() over the same collector)
reply     ok <explored states> <outcome>;<outcome>…        | err <why>
  outcome   DEADLOCK | ITERERR | <thread 0 observations>/<thread 1 …>/…/F:<final>
            observations, comma separated:  G<o>=<n>  L<k>=<child id>  R=<c.c…>  C=<n>  P<k>=<n|->   (`.` if none)
            final: v<o>=<n> for every value object used, K<k>=<child id> for the child table, X=<c.c…> registered collectors
            child ids are tid*100+call index+1 of the creating call; the harness renames them on both sides.
request   c02 welllocked        reply  ok <name>=<0|1>,…     (evaluates `wellLockedB` / `noUserInLock` on the generated skeletons)
-/
import PromVerif.Py.Wire
import PromVerif.Spec.Conc
import Std.Data.HashSet

namespace PromVerif.Drv.C02
open PromVerif.Generated.Locks PromVerif.Model.Conc PromVerif.Spec.Conc

abbrev S := St ILock ICell Upd CVal
abbrev Code := List (Micro ILock ICell Upd)

def lobjOf (o : Nat) : LockId → Nat
  | .value => o
  | _ => 0

def vobjOf (o : Nat) : Var → Nat
  | .value => o
  | .exemplar => o
  | .timestamp => o
  | .file => o
  | _ => 0

/-- library callee the outcome model runs: the child's value constructor (under the parent lock; it takes the global lock in
the multiprocess store).  `describe()` of the harness's collectors and the children's samples are modelled by the program
itself (`col` = registry part + explicit `get`s), so they stay markers here. -/
def drvCb (bk : Backend) : Callee → List CMicro
  | .childCtor => libCb bk .childCtor
  | _ => []

def mkB (bk : Backend) (sk : List Sk) (o : Nat) (lab : Var → Upd) : Call Upd :=
  { code0 := compile (canon 0) (drvCb bk) sk, bl0 := blindSet bk sk, lobj := lobjOf o, vobj := vobjOf o,
    lab := fun x => lab x.1 }

def mk (sk : List Sk) (o : Nat) (lab : Var → Upd) : Call Upd := mkB .mutex sk o lab

def only (x : Var) (u : Upd) : Var → Upd := fun y => if y = x then u else .keep

/-- what a call contributes to the thread's observations -/
inductive Prim
  | silent (c : Call Upd)
  | get (c : Call Upd) (o : Nat) (tag : String)
  | lab (c : Call Upd) (k : Nat)
  | colReg (c : Call Upd)
  | snap (c : Call Upd)
  | getP (c : Call Upd) (k : Nat)

def Prim.call : Prim → Call Upd
  | .silent c => c
  | .get c _ _ => c
  | .lab c _ => c
  | .colReg c => c
  | .snap c => c
  | .getP c _ => c

structure Cfg where
  bk : Backend
  hasC : Bool
  hasP : Bool
  pre : Bool := false
  preV : Bool := false

def incSk (bk : Backend) : List Sk := match bk with | .mutex => MutexValue_inc | .mmap => MmapedValue_inc
def getSk (bk : Backend) : List Sk := match bk with | .mutex => MutexValue_get | .mmap => MmapedValue_get
def setSk (bk : Backend) : List Sk := match bk with | .mutex => MutexValue_set | .mmap => MmapedValue_set

def getPrim (cfg : Cfg) (o : Nat) (tag : String) : Prim := .get (mk (getSk cfg.bk) o (fun _ => .keep)) o tag

def regLab (c : Nat) : Var → Upd := fun x =>
  match x with
  | .collectorToNames => .ins c 1
  | .namesToCollectors => .ins c c
  | _ => .keep

def unregLab (c : Nat) : Var → Upd := fun x =>
  match x with
  | .collectorToNames => .rem c
  | .namesToCollectors => .rem c
  | _ => .keep

def rcolCall (c : Nat) : Call Upd :=
  let cb : Callee → List CMicro := fun callee =>
    match callee with
    | .collect => canonCodeK 1 CollectorRegistry_register ++ canonCodeK 2 CollectorRegistry_unregister ++
                  canonCodeK 3 RestrictedRegistry_collect
    | _ => []
  { code0 := compile (canon 0) cb CollectorRegistry_collect, bl0 := fun _ => false,
    lobj := lobjOf 0, vobj := vobjOf 0,
    lab := fun xk => if xk.2 = 1 then regLab c xk.1 else if xk.2 = 2 then unregLab c xk.1 else .keep }

def rrcolCall (c : Nat) : Call Upd :=
  { rcolCall c with
    code0 := compile (canon 0)
      (fun callee => match callee with
        | .collect => canonCodeK 1 CollectorRegistry_register ++ canonCodeK 2 CollectorRegistry_unregister ++
                      canonCodeK 3 RestrictedRegistry_collect ++ canonCodeK 4 CollectorRegistry_get_target_info
        | _ => [])
      RestrictedRegistry_collect }

def collectPrims (cfg : Cfg) : List Prim :=
  [.colReg (mk CollectorRegistry_collect 0 (fun _ => .keep))] ++
  (if cfg.hasC then [getPrim cfg 0 "C"] else []) ++
  (if cfg.hasP then [.snap (mk MetricWrapperBase_multi_samples 0 (fun _ => .keep)),
                     .getP (mk (getSk cfg.bk) 10 (fun _ => .keep)) 0,
                     .getP (mk (getSk cfg.bk) 11 (fun _ => .keep)) 1] else [])

/-- one call of the program text, for thread `tid`, call index `idx` -/
def parseOp (cfg : Cfg) (tid idx : Nat) (f : String) : Option (List Prim) :=
  let cid := tid * 100 + idx + 1
  match f.splitOn ":" with
  | ["inc", o, a] => do
    let o ← o.toNat?; let a ← a.toNat?
    pure [.silent (mk (incSk cfg.bk) o (only .value (.add a)))]
  | ["set", o, a] => do
    let o ← o.toNat?; let a ← a.toNat?
    pure [.silent (mk (setSk cfg.bk) o (only .value (.set a)))]
  | ["get", o] => do
    let o ← o.toNat?
    pure [getPrim cfg o s!"G{o}"]
  | ["lab", k] => do
    let k ← k.toNat?
    pure [.lab (mkB cfg.bk MetricWrapperBase_labels (10 + k) (only .metrics (.ensure k cid))) k]
  | ["linc", k, a] => do
    let k ← k.toNat?; let a ← a.toNat?
    pure [.lab (mkB cfg.bk MetricWrapperBase_labels (10 + k) (only .metrics (.ensure k cid))) k,
          .silent (mk (incSk cfg.bk) (10 + k) (only .value (.add a)))]
  | ["rem", k] => do
    let k ← k.toNat?
    pure [.silent (mk MetricWrapperBase_remove 0 (only .metrics (.del k)))]
  | ["clr"] => pure [.silent (mk MetricWrapperBase_clear 0 (only .metrics .clear))]
  | ["reg", c] => do
    let c ← c.toNat?
    pure [.silent (mk CollectorRegistry_register 0 (regLab c))]
  | ["unreg", c] => do
    let c ← c.toNat?
    pure [.silent (mk CollectorRegistry_unregister 0 (unregLab c))]
  | ["col"] => pure (collectPrims cfg)
  | ["rcol", c] => do
    let c ← c.toNat?
    pure [.colReg (rcolCall c)]
  | ["rrcol", c] => do
    let c ← c.toNat?
    pure [.silent (rrcolCall c)]
  | _ => none

def parseThread (cfg : Cfg) (tid : Nat) (f : String) : Option (List Prim) :=
  let rec go (idx : Nat) : List String → Option (List Prim)
    | [] => some []
    | x :: r => do
      let a ← parseOp cfg tid idx x
      let b ← go (idx + 1) r
      pure (a ++ b)
  go 0 (f.splitOn ",")

def interesting (c : ICell) : Bool :=
  match c.1 with
  | .value => true
  | .metrics => true
  | .collectorToNames => true
  | _ => false

def loadsOf (code : Code) : Nat :=
  code.foldl (fun n m => match m with | .load x => if interesting x then n + 1 else n | _ => n) 0

def cvalKeys (t : CVal) : String :=
  let ks := (t.map (·.1)).toArray.qsort (· < ·)
  if ks.isEmpty then "_" else ".".intercalate (ks.toList.map toString)

def cvalStr (t : CVal) : String :=
  let es := t.toArray.qsort (fun a b => a.1 < b.1)
  if es.isEmpty then "_" else ".".intercalate (es.toList.map (fun e => s!"{e.1}:{e.2}"))

def lastAt (c : ICell) (ls : List (ICell × CVal)) : Option CVal :=
  (ls.reverse.find? (fun e => e.1 = c)).map (·.2)

def firstAt (c : ICell) (ls : List (ICell × CVal)) : Option CVal :=
  (ls.find? (fun e => e.1 = c)).map (·.2)

/-- observations of one thread: walk its prims, consuming the interesting loads (oldest first) each performed -/
def extract : List Prim → List (ICell × CVal) → CVal → List String
  | [], _, _ => []
  | p :: r, ls, snap =>
    let n := loadsOf p.call.code
    let mine := ls.take n
    let rest := ls.drop n
    match p with
    | .silent _ => extract r rest snap
    | .get _ o tag =>
      (match lastAt (.value, o) mine with | some v => s!"{tag}={v.num}" | none => s!"{tag}=?") :: extract r rest snap
    | .lab _ k =>
      (match lastAt (.metrics, 0) mine with
        | some v => (match v.lookup k with | some c => s!"L{k}={c}" | none => s!"L{k}=-")
        | none => s!"L{k}=?") :: extract r rest snap
    | .colReg _ =>
      (match firstAt (.collectorToNames, 0) mine with | some v => s!"R={cvalKeys v}" | none => "R=?") :: extract r rest snap
    | .snap _ =>
      extract r rest ((firstAt (.metrics, 0) mine).getD [])
    | .getP _ k =>
      (if snap.has k then
        (match lastAt (.value, 10 + k) mine with | some v => s!"P{k}={v.num}" | none => s!"P{k}=?")
       else s!"P{k}=-") :: extract r rest snap

structure Node where
  s : S
  obs : Array (List (ICell × CVal))     -- per thread, newest first

def headOf (s : S) (i : Nat) : Option (Micro ILock ICell Upd) :=
  match s.threads[i]? with
  | some t => t.pc.head?
  | none => none

/-- step thread `i`, recording an interesting load -/
def stepNode (n : Node) (i : Nat) : Option Node :=
  match step apU n.s i with
  | none => none
  | some s' =>
    match headOf n.s i with
    | some (.load x) =>
      if interesting x then some { s := s', obs := n.obs.modify i (fun l => (x, n.s.cell x) :: l) }
      else some { s := s', obs := n.obs }
    | _ => some { s := s', obs := n.obs }

def ownerStr (o : Option Tid) : String := match o with | some i => toString i | none => "-"

def nodeKey (cells : List ICell) (locks : List ILock) (n : Node) : String :=
  let pcs := ",".intercalate (n.s.threads.map (fun t => toString t.pc.length))
  let cs := ",".intercalate (cells.map (fun c => cvalStr (n.s.cell c) ++ (if n.s.err c then "!" else "") ++
              "i" ++ ".".intercalate ((n.s.iters c).map toString)))
  let ls := ",".intercalate (locks.map (fun l => ownerStr (n.s.owner l)))
  let rs := "/".intercalate (n.s.threads.map (fun t => ",".intercalate (cells.map (fun c => cvalStr (t.reg c)))))
  let os := "/".intercalate (n.obs.toList.map (fun l => ",".intercalate (l.map (fun e => cvalStr e.2))))
  s!"{pcs}|{cs}|{ls}|{rs}|{os}"

def cellsOf (progs : List Code) : List ICell :=
  (progs.flatten.foldl (fun acc m =>
    match m with
    | .load x => if acc.contains x then acc else x :: acc
    | .store x _ => if acc.contains x then acc else x :: acc
    | .iterBegin x => if acc.contains x then acc else x :: acc
    | _ => acc) []).reverse

def locksOf (progs : List Code) : List ILock :=
  (progs.flatten.foldl (fun acc m =>
    match m with
    | .acquire l => if acc.contains l then acc else l :: acc
    | _ => acc) []).reverse

/-- a step that commutes with every step of every other thread and is invisible: taken eagerly -/
def isLocal (m : Micro ILock ICell Upd) : Bool :=
  match m with
  | .call _ _ => true
  | .yield => true
  | _ => false

def storedCells (progs : List Code) : List ICell :=
  (progs.flatten.foldl (fun acc m =>
    match m with
    | .store x u => if u = .keep || acc.contains x then acc else x :: acc
    | _ => acc) []).reverse

def finalStr (cells : List ICell) (s : S) : String :=
  let vs := cells.filterMap (fun c => if c.1 = .value then some s!"v{c.2}={(s.cell c).num}" else none)
  let ks := (s.cell (.metrics, 0)).toArray.qsort (fun a b => a.1 < b.1)
  let kk := ks.toList.map (fun e => s!"K{e.1}={e.2}")
  let x := s!"X={cvalKeys (s.cell (.collectorToNames, 0))}"
  "F:" ++ ",".intercalate (vs ++ kk ++ [x])

def outcomeOf (prims : List (List Prim)) (cells stored : List ICell) (n : Node) : String :=
  if cells.any (fun c => n.s.err c) then "ITERERR"
  else if !finishedB n.s then "DEADLOCK"
  else
    let per := (List.range prims.length).map (fun i =>
      let toks := extract (prims.getD i []) ((n.obs.getD i []).reverse) []
      if toks.isEmpty then "." else ",".intercalate toks)
    "/".intercalate (per ++ [finalStr stored n.s])

/-- all outcomes by depth-first search over the interleavings, memoised on the (finite) relevant part of the state -/
def explore (pre preV : Bool) (prims : List (List Prim)) (maxNodes : Nat) : Option (Nat × List String) := Id.run do
  let progs : List Code := prims.map (fun ps => (ps.map (fun p => p.call.code)).flatten)
  let cells := cellsOf progs
  let locks := locksOf progs
  let stored := (storedCells progs).toArray.qsort (fun a b => a.2 < b.2) |>.toList
  let nthr := progs.length
  let c0 : ICell → CVal := fun c =>
    if pre && c.1 == .metrics && c.2 == 0 then [(0, 900), (1, 901)]
    else if preV && c.1 == .value && c.2 ≤ 1 then [(0, 5)] else []
  let init : Node := { s := Model.Conc.init c0 progs, obs := Array.replicate nthr [] }
  let mut stack : Array Node := #[init]
  let mut seen : Std.HashSet String := {}
  let mut outs : Std.HashSet String := {}
  let mut count := 0
  let mut fuel := maxNodes
  while fuel > 0 do
    fuel := fuel - 1
    match stack.back? with
    | none => fuel := 0
    | some n =>
      stack := stack.pop
      let k := nodeKey cells locks n
      if seen.contains k then
        pure ()
      else
        seen := seen.insert k
        count := count + 1
        if count ≥ maxNodes then
          return none
        -- an eager local step, if any
        let localT := (List.range nthr).find? (fun i => match headOf n.s i with | some m => isLocal m | none => false)
        match localT with
        | some i =>
          match stepNode n i with
          | some n' => stack := stack.push n'
          | none => pure ()
        | none =>
          let succs := (List.range nthr).filterMap (fun i => stepNode n i)
          if succs.isEmpty then
            outs := outs.insert (outcomeOf prims cells stored n)
          else
            for n' in succs do
              stack := stack.push n'
  let res := outs.toList.toArray.qsort (· < ·)
  return some (count, res.toList)

def parseCfg (bk world : String) : Option Cfg :=
  match bk with
  | "mutex" => some { bk := .mutex, hasC := world.contains 'c', hasP := world.contains 'p' || world.contains 'q',
                      pre := world.contains 'q', preV := world.contains 'v' }
  | "mmap" => some { bk := .mmap, hasC := world.contains 'c', hasP := world.contains 'p' || world.contains 'q',
                     pre := world.contains 'q', preV := world.contains 'v' }
  | _ => none

def parseProgram (cfg : Cfg) (f : String) : Option (List (List Prim)) :=
  let rec go (tid : Nat) : List String → Option (List (List Prim))
    | [] => some []
    | x :: r => do
      let a ← parseThread cfg tid x
      let b ← go (tid + 1) r
      pure (a :: b)
  go 0 (f.splitOn "|")

def wellLockedReport : String :=
  let one (bk : Backend) (tag : String) : List String :=
    (Generated.Locks.all.filterMap (fun (p : String × List Sk) =>
      if (skeletonsOf bk).any (fun sk => flatList sk == flatList p.2) then
        some s!"{tag}.{p.1}={if wellLockedB bk p.2 then 1 else 0}" else none))
  let cp := ["collect_paths=" ++ (if collectPaths.all noUserInLock then "1" else "0")]
  ",".intercalate (one .mutex "mutex" ++ one .mmap "mmap" ++ cp)

def handle : List String → String
  | ["outcomes", bk, world, prog] =>
    match parseCfg bk world with
    | none => "err bad-backend"
    | some cfg =>
      match parseProgram cfg prog with
      | none => "err bad-program"
      | some prims =>
        match explore cfg.pre cfg.preV prims 400000 with
        | none => "err too-large"
        | some (cnt, outs) => s!"ok {cnt} {";".intercalate outs}"
  | ["welllocked"] => "ok " ++ wellLockedReport
  | _ => "err bad-op"

end PromVerif.Drv.C02
