import PromVerif.Drv.Codec
import PromVerif.Model.TextExpo
import PromVerif.Model.OMExpo
namespace PromVerif.Drv.Expo
open PromVerif PromVerif.Wire PromVerif.Model

/-- `expo text <fams>` / `expo om <fams>` / function-level requests -/
def handle : List String → String
  | "text" :: rest =>
    match Codec.decFamilies rest with
    | some fs => "ok " ++ encText (TextExpo.generateLatest fs)
    | none => "err bad-families"
  | "om" :: rest =>
    match Codec.decFamilies rest with
    | some fs =>
      match OMExpo.generateLatest fs with
      | .ok s => "ok " ++ encText s
      | .error e => "err " ++ e.name
    | none => "err bad-families"
  | ["escape", f] => match decText f with
    | some s => "ok " ++ encText (Escape.escape s)
    | none => "err bad-field"
  | ["escape_metric_name", f] => match decText f with
    | some s => "ok " ++ encText (Escape.escapeMetricName s)
    | none => "err bad-field"
  | ["escape_label_name", f] => match decText f with
    | some s => "ok " ++ encText (Escape.escapeLabelName s)
    | none => "err bad-field"
  | ["legacy_metric_name", f] => match decText f with
    | some s => "ok " ++ toString (Validation.isValidLegacyMetricName s)
    | none => "err bad-field"
  | ["legacy_labelname", f] => match decText f with
    | some s => "ok " ++ toString (Validation.isValidLegacyLabelname s)
    | none => "err bad-field"
  | ["validate_metric_name", leg, f] => match decText f with
    | some s => match Validation.validateMetricName (leg == "1") s with
      | .ok _ => "ok"
      | .error e => "err " ++ e.name
    | none => "err bad-field"
  | ["validate_labelname", leg, f] => match decText f with
    | some s => match Validation.validateLabelname (leg == "1") s with
      | .ok _ => "ok"
      | .error e => "err " ++ e.name
    | none => "err bad-field"
  | _ => "err bad-op"

end PromVerif.Drv.Expo
