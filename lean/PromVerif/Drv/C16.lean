import PromVerif.Py.Wire
import PromVerif.Model.Wrappers
import PromVerif.Spec.Wrappers
/-
Driver for C16.

  c16 exec <tree> <clock> <gauges> <ncounters> <nobs>
      tree    comma-separated prefix code:  Call := C nW W… Body ;  W := T m kind mode tid | I g | E c n cls… ;
              Body := O out | N swallow n Call… out | R depth out ;  out := r v | x id cls
              (kind 0 = set, 1 = observe; mode 0 = decorator, 1 = with-new, 2 = with-shared; cls 0..10)
      clock   `;`-list of readings (or `.`), gauges `;`-list of initial gauge values
   -> ok <outcome> <observations oldest first m:k:d> <gauges> <counter deltas>
         <spec outcome> <spec timed counts: observe metrics, then gauges> <spec escape counts>

  c16 sig <name|posonly|pos|defaults|varargs|kwonly|kwdefaults|varkw> <pos|kw>
   -> ok <ok|NameError> <source h:hex> <bind original> <bind wrapper> <call through wrapper>
      a binding is `E` (TypeError) or `args|varargs|kw`

  c16 deco <function|instance|partial|builtin|boundmethod|class|staticmethod>
   -> ok <ok|AttributeError|TypeError>

  c16 tl <program> <clock>
      program comma-separated prefix code:  nd (Ref kind)… Prog out     (the decorator-level Timer objects 0..nd-1, then the program)
              Prog := n Stmt… ;  Stmt := L up LArgs | D d LArgs | W Ref kind sw Prog out | F d sw Prog out ;
              LArgs := np v… nk name val… ;  Ref := p m | P m nn name… | c m nv v… ;  out := r v | x id cls
   -> ok <outcome> <observations oldest first ref:kind:d> <block outcomes oldest first> <_metric of the decorator-level Timers>
      a ref is written p.m / P.m.names… / c.m.values…
-/
namespace PromVerif.Drv.C16
open PromVerif PromVerif.Wire PromVerif.Model.Wrappers PromVerif.Spec.Wrappers

def clsOf : Nat → ExcClass
  | 0 => .baseException | 1 => .exception | 2 => .valueError | 3 => .lookupError | 4 => .keyError
  | 5 => .keyboardInterrupt | 6 => .systemExit | 7 => .generatorExit
  | 8 => .baseExceptionGroup | 9 => .exceptionGroup | _ => .valueGroup

def clsNo : ExcClass → Nat
  | .baseException => 0 | .exception => 1 | .valueError => 2 | .lookupError => 3 | .keyError => 4
  | .keyboardInterrupt => 5 | .systemExit => 6 | .generatorExit => 7
  | .baseExceptionGroup => 8 | .exceptionGroup => 9 | .valueGroup => 10

def pOut : List String → Option (Outcome × List String)
  | "r" :: v :: r => v.toNat?.map (fun n => (.ret n, r))
  | "x" :: i :: c :: r => do
    let i ← i.toNat?
    let c ← c.toNat?
    pure (.raise ⟨i, clsOf c⟩, r)
  | _ => none

def pNats : Nat → List String → Option (List Nat × List String)
  | 0, r => some ([], r)
  | n + 1, x :: r => do
    let v ← x.toNat?
    let (vs, r') ← pNats n r
    pure (v :: vs, r')
  | _, [] => none

def pWrapper : List String → Option (Wrapper × List String)
  | "T" :: m :: k :: mode :: tid :: r => do
    let m ← m.toNat?
    let tid ← tid.toNat?
    let kind := if k == "0" then TimeKind.set else TimeKind.observe
    let md := if mode == "0" then TimerMode.decorator tid else if mode == "1" then TimerMode.withNew else TimerMode.withShared tid
    pure (.time m kind md, r)
  | "I" :: g :: r => g.toNat?.map (fun g => (.inprogress g, r))
  | "E" :: c :: n :: r => do
    let c ← c.toNat?
    let n ← n.toNat?
    let (cl, r') ← pNats n r
    pure (.countExc c (cl.map clsOf), r')
  | _ => none

def pWrappers : Nat → List String → Option (List Wrapper × List String)
  | 0, r => some ([], r)
  | n + 1, r => do
    let (w, r1) ← pWrapper r
    let (ws, r2) ← pWrappers n r1
    pure (w :: ws, r2)

mutual
  def pCall : Nat → List String → Option (Call × List String)
    | 0, _ => none
    | fuel + 1, "C" :: n :: r => do
      let n ← n.toNat?
      let (ws, r1) ← pWrappers n r
      let (b, r2) ← pBody fuel r1
      pure (.mk ws b, r2)
    | _, _ => none
  def pBody : Nat → List String → Option (Body × List String)
    | 0, _ => none
    | _ + 1, "O" :: r => do
      let (o, r1) ← pOut r
      pure (.out o, r1)
    | fuel + 1, "N" :: sw :: n :: r => do
      let n ← n.toNat?
      let (cs, r1) ← pCalls fuel n r
      let (o, r2) ← pOut r1
      pure (.nest cs (sw == "1") o, r2)
    | _ + 1, "R" :: n :: r => do
      let n ← n.toNat?
      let (o, r1) ← pOut r
      pure (.recurse n o, r1)
    | _, _ => none
  def pCalls : Nat → Nat → List String → Option (Calls × List String)
    | 0, _, _ => none
    | _ + 1, 0, r => some (.nil, r)
    | fuel + 1, n + 1, r => do
      let (c, r1) ← pCall fuel r
      let (cs, r2) ← pCalls fuel n r1
      pure (.cons c cs, r2)
end

def encOut : Outcome → String
  | .ret v => s!"r:{v}"
  | .raise e => s!"x:{e.id}:{clsNo e.cls}"

def decInts (f : String) : Option (List Int) := (decList f).mapM (fun x => x.toInt?)

def encObs (o : Obs) : String :=
  let k := match o.kind with | .set => 0 | .observe => 1
  s!"{o.metric}:{k}:{o.dur}"

def getI (l : List Int) (i : Nat) : Int := l.getD i 0

def runExec (tree clock gauges nc nobs : String) : String :=
  let toks := tree.splitOn ","
  match pCall (toks.length + 1) toks, decInts clock, decInts gauges, nc.toNat?, nobs.toNat? with
  | some (c, []), some cl, some gs, some nc, some nobs =>
    let s0 : St := ⟨⟨cl, 0⟩, [], getI gs, fun _ => 0, fun _ => 0⟩
    let r := exec c s0
    let ng := gs.length
    let obs := encList (r.2.obs.reverse.map encObs)
    let gout := encList ((List.range ng).map (fun g => toString (r.2.gauge g)))
    let cout := encList ((List.range nc).map (fun k => toString (r.2.counter k)))
    let timed := encList ((List.range nobs).map (fun m => toString (timedCall m .observe c))
                  ++ (List.range ng).map (fun g => toString (timedCall g .set c)))
    let esc := encList ((List.range nc).map (fun k => toString (escCall k c)))
    s!"ok {encOut r.1} {obs} {gout} {cout} {encOut (outcomeCall c)} {timed} {esc}"
  | _, _, _, _, _ => "err bad-field"

def splitNames (f : String) : List Name :=
  if f == "" then [] else (f.splitOn ",").map String.toList

def optName (f : String) : Option Name := if f == "-" || f == "" then none else some f.toList

def decKw (f : String) : Option Kw :=
  if f == "" then some [] else
    (f.splitOn ",").mapM (fun kv =>
      match kv.splitOn "=" with
      | [k, v] => v.toNat?.map (fun n => (k.toList, n))
      | _ => none)

def decVals (f : String) : Option (List Val) :=
  if f == "" then some [] else (f.splitOn ",").mapM (fun x => x.toNat?)

def decSpec (f : String) : Option ArgSpec :=
  match f.splitOn "|" with
  | [name, po, p, d, va, ko, kd, vk] => do
    let d ← decVals d
    let kd ← decKw kd
    pure { name := name.toList, posonly := splitNames po, pos := splitNames p, defaults := d, varargs := optName va,
           kwonly := splitNames ko, kwdefaults := kd, varkw := optName vk, annotations := [], doc := none,
           qualname := name.toList, module := [], dict := [], wrapped := none, fid := 1 }
  | _ => none

def decCall (f : String) : Option CallArgs :=
  match f.splitOn "|" with
  | [p, k] => do
    let p ← decVals p
    let k ← decKw k
    pure ⟨p, k⟩
  | _ => none

def encKw (kw : Kw) : String := ",".intercalate (kw.map (fun kv => String.ofList kv.1 ++ "=" ++ toString kv.2))

def encBind : Except Py.PyErr Env → String
  | .error _ => "E"
  | .ok env => encKw env.args ++ "|" ++ ",".intercalate (env.varargs.map toString) ++ "|" ++ encKw env.kw

def runSig (spec call : String) : String :=
  match decSpec spec, decCall call with
  | some s, some ca =>
    match decorate s with
    | .error _ => s!"ok NameError h: {encBind (bind s ca)} - -"
    | .ok w => s!"ok ok {encText (sourceStr s)} {encBind (bind s ca)} {encBind (bind w ca)} {encBind (callThrough s ca)}"
  | _, _ => "err bad-field"

def kindOf : String → Option CallableKind
  | "function" => some .function | "instance" => some .callableInstance | "partial" => some .partialObject
  | "builtin" => some .builtin | "boundmethod" => some .boundMethod | "class" => some .cls
  | "staticmethod" => some .staticmethodObject | _ => none

/-- `c16 deco <kind>` -> what decorating a callable of that kind (taking one positional parameter) gives -/
def runDeco (kind : String) : String :=
  let s : ArgSpec := { name := "f".toList, posonly := [], pos := ["x".toList], defaults := [], varargs := none, kwonly := [],
                       kwdefaults := [], varkw := none, annotations := [], doc := none, qualname := "f".toList, module := [],
                       dict := [], wrapped := none, fid := 1 }
  match kindOf kind with
  | none => "err bad-field"
  | some k =>
    match decorateCallable k s with
    | .ok _ => "ok ok"
    | .error .nameError => "ok NameError"
    | .error .attributeError => "ok AttributeError"
    | .error .typeError => "ok TypeError"

/-! `Timer.labels` programs -/

def pRef : List String → Option (MRef × List String)
  | "p" :: m :: r => m.toNat?.map (fun m => (.plain m, r))
  | "P" :: m :: n :: r => do
    let m ← m.toNat?
    let n ← n.toNat?
    let (ns, r') ← pNats n r
    pure (.parent m ns, r')
  | "c" :: m :: n :: r => do
    let m ← m.toNat?
    let n ← n.toNat?
    let (vs, r') ← pNats n r
    pure (.child m vs, r')
  | _ => none

def pairUp : List Nat → List (Nat × Nat)
  | a :: b :: r => (a, b) :: pairUp r
  | _ => []

def pLArgs : List String → Option (LArgs × List String)
  | np :: r => do
    let np ← np.toNat?
    let (ps, r1) ← pNats np r
    match r1 with
    | nk :: r2 => do
      let nk ← nk.toNat?
      let (ks, r3) ← pNats (2 * nk) r2
      pure (⟨ps, pairUp ks⟩, r3)
    | [] => none
  | [] => none

def kindTok (k : String) : TimeKind := if k == "0" then .set else .observe

mutual
  def pStmt : Nat → List String → Option (LStmt × List String)
    | 0, _ => none
    | _ + 1, "L" :: up :: r => do
      let up ← up.toNat?
      let (a, r1) ← pLArgs r
      pure (.labels up a, r1)
    | _ + 1, "D" :: d :: r => do
      let d ← d.toNat?
      let (a, r1) ← pLArgs r
      pure (.labelsDeco d a, r1)
    | fuel + 1, "W" :: r => do
      let (ref, r1) ← pRef r
      match r1 with
      | k :: sw :: r2 => do
        let (p, r3) ← pProg fuel r2
        let (o, r4) ← pOut r3
        pure (.block (.withTime ref (kindTok k)) p o (sw == "1"), r4)
      | _ => none
    | fuel + 1, "F" :: d :: sw :: r => do
      let d ← d.toNat?
      let (p, r1) ← pProg fuel r
      let (o, r2) ← pOut r1
      pure (.block (.callDeco d) p o (sw == "1"), r2)
    | _, _ => none
  def pProg : Nat → List String → Option (LProg × List String)
    | 0, _ => none
    | fuel + 1, n :: r => do
      let n ← n.toNat?
      pStmts fuel n r
    | _, [] => none
  def pStmts : Nat → Nat → List String → Option (LProg × List String)
    | 0, _, _ => none
    | _ + 1, 0, r => some (.nil, r)
    | fuel + 1, n + 1, r => do
      let (s, r1) ← pStmt fuel r
      let (p, r2) ← pStmts fuel n r1
      pure (.cons s p, r2)
end

def pDecos : Nat → List String → Option (List TimerObj × List String)
  | 0, r => some ([], r)
  | n + 1, r => do
    let (ref, r1) ← pRef r
    match r1 with
    | k :: r2 => do
      let (ds, r3) ← pDecos n r2
      pure (⟨ref, kindTok k⟩ :: ds, r3)
    | [] => none

def encRef : MRef → String
  | .plain m => s!"p.{m}"
  | .parent m ns => ".".intercalate (["P", toString m] ++ ns.map toString)
  | .child m vs => ".".intercalate (["c", toString m] ++ vs.map toString)

def encLObs (o : LObs) : String :=
  let k := match o.kind with | .set => 0 | .observe => 1
  s!"{encRef o.ref}:{k}:{o.dur}"

def runTl (prog clock : String) : String :=
  let toks := prog.splitOn ","
  match toks, decInts clock with
  | nd :: rest, some cl =>
    match nd.toNat? with
    | none => "err bad-field"
    | some nd =>
      match pDecos nd rest with
      | none => "err bad-field"
      | some (ds, r1) =>
        match pProg (toks.length + 1) r1 with
        | some (p, r2) =>
          match pOut r2 with
          | some (o, []) =>
            let s0 : LSt := ⟨⟨cl, 0⟩, [], fun i => ds.getD i ⟨.plain 0, .observe⟩, ds.length, []⟩
            let r := execProg [] p o s0
            let decos := encList ((List.range ds.length).map (fun i => encRef (r.2.timers i).metric))
            s!"ok {encOut r.1} {encList (r.2.obs.reverse.map encLObs)} {encList (r.2.log.reverse.map encOut)} {decos}"
          | _ => "err bad-field"
        | none => "err bad-field"
  | _, _ => "err bad-field"

def handle : List String → String
  | ["exec", tree, clock, gauges, nc, nobs] => runExec tree clock gauges nc nobs
  | ["tl", prog, clock] => runTl prog clock
  | ["sig", spec, call] => runSig spec call
  | ["deco", kind] => runDeco kind
  | _ => "err bad-op"

end PromVerif.Drv.C16
