/-
C15 — the validation rules of the OpenMetrics parser as predicates on its input, written from the wording of the
rules (properties.jsonl, C15), not from the parser.

Level: the list of tokenised lines (`Model.OMParse.Line`) that feeds the family state machine `assemble`.  A rule
predicate says "somewhere in the list there is this violation": the lines before (`pre`), the lines of the family
between its `# TYPE` line and the offending line (`mid`), and the lines after (`post`) are arbitrary, so the
quantifier "whatever the names, labels, numbers, number of groups and position of the offending line" is a plain ∀
over lists.  The number operations are those of `Params` (the rules that speak about numbers are parametric in them).

Vocabulary
* `smp s`      — a sample line that parsed to the sample `s` (and is not shaped like a native histogram)
* `InFam n t`  — "a line of family n (of type t)": one of its metadata lines, or a sample line carrying one of the
                 family's sample names (name plus a suffix of the type)
* `InBlock ls n t bad` — `ls` contains `# TYPE n t`, then lines of that family, then the lines `bad`
-/
import PromVerif.Model.OMParse

namespace PromVerif.Spec.OMRules
open PromVerif.Py PromVerif.Model.ParseCore PromVerif.Model.OMParse PromVerif.Generated.OMParse

/-- the computation raised -/
def isError {α : Type} : PyM α → Bool
  | .ok _ => false
  | .error _ => true

/-- a sample line that parsed to `s` and is not native-histogram shaped -/
def smp (s : OSample) : Line := .sample (.ok none) (.ok s)

/-- the sample names a family `n` of type `t` may use, from the format's suffix table:
counter `_total _created`, summary `"" _count _sum _created`, histogram `_count _sum _bucket _created`,
gaugehistogram `_gcount _gsum _bucket`, info `_info`, every other type the bare name -/
def specSuffixes (t : Str) : List Str :=
  if t = cs!"counter" then [cs!"_total", cs!"_created"]
  else if t = cs!"summary" then [cs!"", cs!"_count", cs!"_sum", cs!"_created"]
  else if t = cs!"histogram" then [cs!"_count", cs!"_sum", cs!"_bucket", cs!"_created"]
  else if t = cs!"gaugehistogram" then [cs!"_gcount", cs!"_gsum", cs!"_bucket"]
  else if t = cs!"info" then [cs!"_info"]
  else [cs!""]

def familyNames (n t : Str) : List Str := (specSuffixes t).map (n ++ ·)

/-- a line of family `n` of type `t` -/
def InFam (n t : Str) : Line → Prop
  | .metadata _ name _ => name = n
  | .sample _ plain => ∀ s, plain = .ok s → s.name ∈ familyNames n t
  | _ => False

/-- `ls` = anything, `# TYPE n t`, lines of that family, the lines `bad`, anything -/
def InBlock (ls : List Line) (n t : Str) (bad : List Line) : Prop :=
  ∃ pre mid post, ls = pre ++ .metadata cs!"TYPE" n t :: (mid ++ bad ++ post) ∧ ∀ l ∈ mid, InFam n t l

/-! ## end of input, blank lines -/

/-- no `# EOF` line at all -/
def MissingEOF (ls : List Line) : Prop := Line.eof ∉ ls

/-- any line after an `# EOF` line (a second `# EOF` included) -/
def ContentAfterEOF (ls : List Line) : Prop := ∃ pre l post, ls = pre ++ Line.eof :: l :: post

def BlankLine (ls : List Line) : Prop := Line.blank ∈ ls

/-! ## per-sample value and label rules -/

/-- an info sample whose value is not 1 -/
def InfoNotOne (P : Params) (ls : List Line) : Prop :=
  ∃ n s v, InBlock ls n cs!"info" [smp s] ∧ s.name = n ++ cs!"_info" ∧ s.value = some v ∧ P.eq v (.int 1) = false

/-- a stateset sample whose value is neither 0 nor 1 -/
def StatesetBadValue (P : Params) (ls : List Line) : Prop :=
  ∃ n s v, InBlock ls n cs!"stateset" [smp s] ∧ s.name = n ∧ s.value = some v ∧
    P.eq v (.int 0) = false ∧ P.eq v (.int 1) = false

/-- a stateset sample without the label named after the family -/
def StatesetNoLabel (ls : List Line) : Prop :=
  ∃ n s lbls, InBlock ls n cs!"stateset" [smp s] ∧ s.name = n ∧ s.labels = some lbls ∧ (∀ kv ∈ lbls, kv.1 ≠ n)

/-- the suffixes of counter-like samples -/
def counterLike : List Str :=
  [cs!"_total", cs!"_sum", cs!"_count", cs!"_bucket", cs!"_gcount", cs!"_gsum"]

/-- counter-like samples that may not be negative: all of them but `_gsum` (a gauge histogram may sum below zero) -/
def counterLikeNonNeg : List Str :=
  [cs!"_total", cs!"_sum", cs!"_count", cs!"_bucket", cs!"_gcount"]

/-- a counter-like sample of a family whose value is NaN -/
def CounterLikeNaN (P : Params) (ls : List Line) : Prop :=
  ∃ n t s suf b, InBlock ls n t [smp s] ∧ s.name = n ++ suf ∧ suf ∈ counterLike ∧ s.name ∈ familyNames n t ∧
    s.value = some (.flt b) ∧ P.isNaN b = true

/-- a counter-like sample of a family whose value is below zero -/
def CounterLikeNegative (P : Params) (ls : List Line) : Prop :=
  ∃ n t s suf v, InBlock ls n t [smp s] ∧ s.name = n ++ suf ∧ suf ∈ counterLikeNonNeg ∧ s.name ∈ familyNames n t ∧
    s.value = some v ∧ P.lt v (.int 0) = true

/-- a summary quantile sample whose `quantile` label is missing, is not a number, or lies outside [0, 1] -/
def QuantileOutOfRange (P : Params) (ls : List Line) : Prop :=
  ∃ n s lbls, InBlock ls n cs!"summary" [smp s] ∧ s.name = n ∧ s.labels = some lbls ∧
    (match dictGet lbls cs!"quantile" with
     | none => True
     | some q => match P.pyFloat q with
       | none => True
       | some f => ¬ (P.le (.int 0) (.flt f) = true ∧ P.le (.flt f) (.int 1) = true))

/-- bucket and count values of histograms, gauge histograms and summaries that are not integral -/
def CountNotIntegral (P : Params) (ls : List Line) : Prop :=
  ∃ n t s suf b, InBlock ls n t [smp s] ∧ s.name = n ++ suf ∧
    suf ∈ [cs!"_bucket", cs!"_count", cs!"_gcount"] ∧ s.name ∈ familyNames n t ∧
    s.value = some (.flt b) ∧ P.isInteger b = false

/-- a bucket line whose `le` label is missing, is not a number, or is a NaN — in whatever spelling `float()` accepts
(`NaN`, `nan`, `-nan`, …) -/
def BucketBoundNaN (P : Params) (ls : List Line) : Prop :=
  ∃ n t s lbls, InBlock ls n t [smp s] ∧ s.name = n ++ cs!"_bucket" ∧ s.name ∈ familyNames n t ∧ s.labels = some lbls ∧
    (match dictGet lbls cs!"le" with
     | none => True
     | some le => match P.pyFloat le with
       | none => True
       | some f => P.isNaN f = true)

/-- samples that may carry an exemplar: buckets of histograms and gauge histograms, `_total` of counters -/
def exemplarEligible (t name : Str) : Prop :=
  ((t = cs!"histogram" ∨ t = cs!"gaugehistogram") ∧ endsWith cs!"_bucket" name = true)
  ∨ (t = cs!"counter" ∧ endsWith cs!"_total" name = true)

/-- an exemplar on a sample that may not carry one -/
def ExemplarIneligible (ls : List Line) : Prop :=
  ∃ n t s, InBlock ls n t [smp s] ∧ s.name ∈ familyNames n t ∧ s.exemplar.isSome = true ∧ ¬ exemplarEligible t s.name

/-! ## timestamps within a group -/

/-- the group of a sample: its labels without the label that distinguishes the samples of one group
(`quantile` on a summary's quantile samples, `le` on buckets, the state label of a stateset) -/
def groupLabels (n t : Str) (s : OSample) : Labels :=
  let ls := s.labels.getD []
  if t = cs!"info" then []                      -- the samples of an info family form one group
  else if t = cs!"summary" ∧ s.name = n then ls.filter (fun kv => kv.1 != cs!"quantile")
  else if t = cs!"stateset" then ls.filter (fun kv => kv.1 != n)
  else if (t = cs!"histogram" ∨ t = cs!"gaugehistogram") ∧ s.name = n ++ cs!"_bucket" then
    ls.filter (fun kv => kv.1 != cs!"le")
  else ls

/-- same group: the same label set, in any order -/
def SameGroup (n t : Str) (s1 s2 : OSample) : Prop :=
  sortByKey (groupLabels n t s1) = sortByKey (groupLabels n t s2)

/-- `Timestamp` values: later-than on (sec, nsec) -/
def stampLt (a b : Int × Int) : Prop := a.1 < b.1 ∨ (a.1 = b.1 ∧ a.2 < b.2)

/-- `t1` is later than `t2`.  Two `Timestamp`s: on (sec, nsec).  Two floats: `<`.  A `Timestamp` and a float:
`float(Timestamp)` against the float — or the seconds against the float when the conversion overflows -/
def tsLater (P : Params) : OTs → OTs → Prop
  | .stamp a1 b1, .stamp a2 b2 => stampLt (a2, b2) (a1, b1)
  | .flt f1, .flt f2 => P.lt (.flt f2) (.flt f1) = true
  | .stamp a b, .flt f =>
    match P.tsFloat a b with
    | some x => P.lt (.flt f) (.flt x) = true
    | none => P.lt (.flt f) (.int a) = true
  | .flt f, .stamp a b =>
    match P.tsFloat a b with
    | some x => P.lt (.flt x) (.flt f) = true
    | none => P.lt (.int a) (.flt f) = true

/-- two consecutive samples of one group, the second with an earlier timestamp — in whatever forms the two
timestamps are written.  Exemption (in the parser: `and typ != 'info'`): info families -/
def TimestampBackwards (P : Params) (ls : List Line) : Prop :=
  ∃ n t s1 s2 t1 t2, InBlock ls n t [smp s1, smp s2] ∧ t ≠ cs!"info" ∧
    s1.name ∈ familyNames n t ∧ s2.name ∈ familyNames n t ∧ SameGroup n t s1 s2 ∧
    s1.ts = some t1 ∧ s2.ts = some t2 ∧ tsLater P t1 t2

/-- two consecutive samples of one group, exactly one of them with a timestamp (info families included: all their
samples are one group) -/
def TimestampPartial (ls : List Line) : Prop :=
  ∃ n t s1 s2, InBlock ls n t [smp s1, smp s2] ∧
    s1.name ∈ familyNames n t ∧ s2.name ∈ familyNames n t ∧ SameGroup n t s1 s2 ∧ s1.ts.isSome ≠ s2.ts.isSome

/-! ## metadata and family structure -/

def metaKinds : List Str := [cs!"HELP", cs!"TYPE", cs!"UNIT"]

/-- two metadata lines of the same kind for the same family, anywhere in the document -/
def RepeatedMetadata (ls : List Line) : Prop :=
  ∃ pre k n r1 mid r2 post, ls = pre ++ .metadata k n r1 :: (mid ++ .metadata k n r2 :: post) ∧ k ∈ metaKinds

/-- a metadata line of a family after a sample line was seen since the family's earlier metadata line -/
def LateMetadata (ls : List Line) : Prop :=
  ∃ pre k1 n r1 mid k2 r2 post, ls = pre ++ .metadata k1 n r1 :: (mid ++ .metadata k2 n r2 :: post) ∧
    k1 ∈ metaKinds ∧ ∃ nh plain, Line.sample nh plain ∈ mid

/-- lines of another family between two metadata lines of one family -/
def InterleavedFamilies (ls : List Line) : Prop :=
  ∃ pre k1 n r1 mid1 k2 m r2 mid2 k3 r3 post,
    ls = pre ++ .metadata k1 n r1 :: (mid1 ++ .metadata k2 m r2 :: (mid2 ++ .metadata k3 n r3 :: post)) ∧
    m ≠ n ∧ k1 ∈ metaKinds ∧ k2 ∈ metaKinds

/-- two families whose sample-name sets (name plus the suffixes of the declared type) overlap -/
def ClashingFamilies (ls : List Line) : Prop :=
  ∃ pre n1 t1 mid n2 t2 post, ls = pre ++ .metadata cs!"TYPE" n1 t1 :: (mid ++ .metadata cs!"TYPE" n2 t2 :: post) ∧
    n1 ≠ n2 ∧ ∃ x, (x ∈ familyNames n1 t1 ∨ x = n1) ∧ (x ∈ familyNames n2 t2 ∨ x = n2)

/-- a (non-empty) unit the family name does not end with `_unit` -/
def UnitNotSuffix (ls : List Line) : Prop :=
  ∃ pre n u post, ls = pre ++ .metadata cs!"UNIT" n u :: post ∧ u ≠ [] ∧ endsWith ('_' :: u) n = false

/-- a (non-empty) unit on an info or stateset family: a `# UNIT` and a `# TYPE … info|stateset` line for one name, in
either order, whatever lies between -/
def UnitOnInfoOrStateset (ls : List Line) : Prop :=
  ∃ pre n u t mid post, u ≠ [] ∧ (t = cs!"info" ∨ t = cs!"stateset") ∧
    (ls = pre ++ .metadata cs!"UNIT" n u :: (mid ++ .metadata cs!"TYPE" n t :: post)
     ∨ ls = pre ++ .metadata cs!"TYPE" n t :: (mid ++ .metadata cs!"UNIT" n u :: post))

/-! ## histogram and gauge-histogram groups

These rules are about the sample list of ONE family as the parser holds it when the family is complete (the
argument of `_check_histogram`): the list the state machine built from the family's sample lines, in order, minus
the lines it dropped as repeats of a series at an unchanged timestamp. -/

/-- the group of a sample inside a histogram family: its labels, without `le` on a bucket line -/
def histGroupOf (n : Str) (s : OSample) : Option Labels :=
  match s.labels with
  | none => none
  | some l =>
    if s.name = n ++ cs!"_bucket" then
      (if dictHas l cs!"le" then some (l.filter (fun kv => kv.1 != cs!"le")) else none)
    else some l

/-- a bucket line of family `n` with bound `b` in group `g` (a classic sample: `_check_histogram` skips native
histogram samples) -/
structure IsBucket (P : Params) (n : Str) (s : OSample) (b : Nat) (g : Labels) : Prop where
  classic : s.nh = none
  name : s.name = n ++ cs!"_bucket"
  group : histGroupOf n s = some g
  bound : ∃ l le, s.labels = some l ∧ dictGet l cs!"le" = some le ∧ P.pyFloat le = some b

/-- same group and same timestamp, as `_check_histogram` compares a sample with its predecessor -/
def SameHistGroup (P : Params) (g1 g2 : Labels) (t1 t2 : Option OTs) : Prop :=
  sortByKey g2 = sortByKey g1 ∧ tsEq P t2 t1 = true

/-- two consecutive bucket lines of one group whose bounds do not increase: `b2 ≤ b1` -/
def HistBoundsNotIncreasing (P : Params) (n : Str) (samples : List OSample) : Prop :=
  ∃ pre s1 s2 post b1 b2 g1 g2, samples = pre ++ s1 :: s2 :: post ∧ IsBucket P n s1 b1 g1 ∧ IsBucket P n s2 b2 g2 ∧
    SameHistGroup P g1 g2 s1.ts s2.ts ∧ P.le (.flt b2) (.flt b1) = true

/-- two consecutive bucket lines of one group whose counts decrease -/
def HistCountsNotCumulative (P : Params) (n : Str) (samples : List OSample) : Prop :=
  ∃ pre s1 s2 post b1 b2 g1 g2 v1 v2, samples = pre ++ s1 :: s2 :: post ∧ IsBucket P n s1 b1 g1 ∧ IsBucket P n s2 b2 g2 ∧
    SameHistGroup P g1 g2 s1.ts s2.ts ∧ s1.value = some v1 ∧ s2.value = some v2 ∧ P.lt v2 v1 = true

/-- a sample of family `n` that is not a bucket line and belongs to the group `g` at timestamp `t`
(`_count`, `_sum`, `_gcount`, `_gsum`, `_created`) -/
def InHistGroup (n : Str) (g : Labels) (t : Option OTs) (s : OSample) : Prop :=
  s.nh = none ∧ s.name.drop n.length ≠ cs!"_bucket" ∧ s.ts = t ∧ (∃ l, histGroupOf n s = some l ∧ sortByKey l = sortByKey g) ∧
    (s.name.drop n.length = cs!"_gsum" → ∃ v, s.value = some v)

/-- the group is over: the list ends, or a sample (with a suffix) of another group or timestamp follows -/
def GroupEnds (P : Params) (n : Str) (g : Labels) (t : Option OTs) : List OSample → Prop
  | [] => True
  | s :: _ => s.nh = none ∧ s.name.drop n.length ≠ [] ∧
      ∃ l, histGroupOf n s = some l ∧ (sortByKey l ≠ sortByKey g ∨ tsEq P s.ts t = false)

/-- a group whose last bucket line is not the `+Inf` bucket -/
def HistNoInf (P : Params) (n : Str) (samples : List OSample) : Prop :=
  ∃ pre sb tail post b g, samples = pre ++ sb :: (tail ++ post) ∧ IsBucket P n sb b g ∧ P.isPosInf b = false ∧
    (∀ s ∈ tail, InHistGroup n g sb.ts s) ∧ GroupEnds P n g sb.ts post

/-- a `_count` / `_gcount` line of family `n` -/
def IsCountLine (n : Str) (s : OSample) : Prop := s.name = n ++ cs!"_count" ∨ s.name = n ++ cs!"_gcount"

/-- not a `_count` / `_gcount` line (by its suffix after the family name) -/
def NotCountLine (n : Str) (s : OSample) : Prop :=
  s.name.drop n.length ≠ cs!"_count" ∧ s.name.drop n.length ≠ cs!"_gcount"

/-- a group whose `_count` / `_gcount` differs from the count of its last bucket line: after the group's last bucket
line `sb` come its other lines (`_sum`, `_created`, … in any order, `t1` and `t2`), among them the count line `sc` (the
last one of the group, should there be several); then the group ends.  This is the canonical order
`_bucket…, _bucket{+Inf}, _count, _sum[, _created]` and every permutation of the non-bucket lines.  Not covered: a count
line that precedes bucket lines of its group. -/
def HistCountNeInf (P : Params) (n : Str) (samples : List OSample) : Prop :=
  ∃ pre sb t1 sc t2 post b g v c, samples = pre ++ sb :: (t1 ++ sc :: (t2 ++ post)) ∧ IsBucket P n sb b g ∧
    (∀ s ∈ t1, InHistGroup n g sb.ts s) ∧ IsCountLine n sc ∧ InHistGroup n g sb.ts sc ∧
    (∀ s ∈ t2, InHistGroup n g sb.ts s ∧ NotCountLine n s) ∧
    sb.value = some v ∧ sc.value = some c ∧ P.eq v c = false ∧ GroupEnds P n g sb.ts post

/-! ### the same two rules on the document's lines

A sample line reaches the list `_check_histogram` receives unless it repeats a series (name and label set) already
seen in its group at an unchanged timestamp — then it is dropped.  The document-level rules therefore ask that the two
offending bucket lines are not such repeats: their series differ from each other and from every earlier sample line of
the family block. -/

/-- the series of a sample: its name and label set -/
def seriesOf (s : OSample) : Str × Labels := (s.name, sortByKey (s.labels.getD []))

/-- `# TYPE n t` (histogram or gaugehistogram), lines of that family, then two consecutive bucket lines `s1`, `s2` that
are new series, related by `bad` -/
def HistPairDoc (ls : List Line) (bad : Str → OSample → OSample → Prop) : Prop :=
  ∃ pre n t mid s1 s2 post, ls = pre ++ .metadata cs!"TYPE" n t :: (mid ++ [smp s1, smp s2] ++ post) ∧
    (t = cs!"histogram" ∨ t = cs!"gaugehistogram") ∧ (∀ l ∈ mid, InFam n t l) ∧
    s1.name ∈ familyNames n t ∧ s2.name ∈ familyNames n t ∧ seriesOf s1 ≠ seriesOf s2 ∧
    (∀ nh s, Line.sample nh (.ok s) ∈ mid → seriesOf s ≠ seriesOf s1 ∧ seriesOf s ≠ seriesOf s2) ∧
    bad n s1 s2

/-- consecutive bucket lines of one group with `b2 ≤ b1`, in the document -/
def HistBoundsNotIncreasingDoc (P : Params) (ls : List Line) : Prop :=
  HistPairDoc ls (fun n s1 s2 => ∃ b1 b2 g1 g2, IsBucket P n s1 b1 g1 ∧ IsBucket P n s2 b2 g2 ∧
    SameHistGroup P g1 g2 s1.ts s2.ts ∧ P.le (.flt b2) (.flt b1) = true)

/-- consecutive bucket lines of one group with a decreasing count, in the document -/
def HistCountsNotCumulativeDoc (P : Params) (ls : List Line) : Prop :=
  HistPairDoc ls (fun n s1 s2 => ∃ b1 b2 g1 g2 v1 v2, IsBucket P n s1 b1 g1 ∧ IsBucket P n s2 b2 g2 ∧
    SameHistGroup P g1 g2 s1.ts s2.ts ∧ s1.value = some v1 ∧ s2.value = some v2 ∧ P.lt v2 v1 = true)

/-! ### the two rules that `do_checks` enforces when a group is over, on the document's lines

`_check_histogram` runs when the family is CLOSED — by a metadata line, by `# EOF`, by a sample of another family, or by
the end of the input — and, inside it, `do_checks` runs when the group changes.  Both closing events are explicit
below.  As above, the group's lines must be new series (a repeat at an unchanged timestamp is dropped beforehand). -/

/-- what follows closes the family block: nothing (the input ends), a line that is not a sample line (`# TYPE/HELP/UNIT`
of any family, `# EOF`, a blank or malformed line), or a sample line of another family -/
def FamilyCloses (n t : Str) (rest : List Line) : Prop :=
  rest = [] ∨ ∃ l tl, rest = l :: tl ∧ ((∀ nh plain, l ≠ .sample nh plain) ∨ ∃ s, l = smp s ∧ s.name ∉ familyNames n t)

/-- `# TYPE n t` (histogram or gaugehistogram), lines of that family, then consecutive sample lines `grp` of the family
that are new series, then `rest`; `bad` relates them -/
def HistGroupDoc (ls : List Line) (bad : Str → Str → List OSample → List Line → Prop) : Prop :=
  ∃ pre n t mid grp rest, ls = pre ++ .metadata cs!"TYPE" n t :: (mid ++ grp.map smp ++ rest) ∧
    (t = cs!"histogram" ∨ t = cs!"gaugehistogram") ∧ (∀ l ∈ mid, InFam n t l) ∧ (∀ s ∈ grp, s.name ∈ familyNames n t) ∧
    (grp.map seriesOf).Nodup ∧ (∀ nh s, Line.sample nh (.ok s) ∈ mid → ∀ x ∈ grp, seriesOf s ≠ seriesOf x) ∧
    bad n t grp rest

/-- the lines `body` of a group are over: they are all of `grp` and the family block is closed by `rest`; or `grp` is
`body` and one more sample line of the family, of another group or timestamp (then `rest` is arbitrary) -/
def GroupClosed (P : Params) (n t : Str) (g : Labels) (ts : Option OTs) (body grp : List OSample) (rest : List Line) : Prop :=
  (grp = body ∧ FamilyCloses n t rest) ∨ (∃ s', grp = body ++ [s'] ∧ GroupEnds P n g ts [s'])

/-- a group whose last bucket line is not the `+Inf` bucket, in the document: the bucket line `sb`, the group's other
lines, and the closing event -/
def HistNoInfDoc (P : Params) (ls : List Line) : Prop :=
  HistGroupDoc ls (fun n t grp rest => ∃ sb tail b g, IsBucket P n sb b g ∧ P.isPosInf b = false ∧
    (∀ s ∈ tail, InHistGroup n g sb.ts s) ∧ tsEq P sb.ts sb.ts = true ∧ GroupClosed P n t g sb.ts (sb :: tail) grp rest)

/-- a group whose `_count` / `_gcount` differs from the count of its last bucket line, in the document -/
def HistCountNeInfDoc (P : Params) (ls : List Line) : Prop :=
  HistGroupDoc ls (fun n t grp rest => ∃ sb t1 sc t2 b g v c, IsBucket P n sb b g ∧
    (∀ s ∈ t1, InHistGroup n g sb.ts s) ∧ IsCountLine n sc ∧ InHistGroup n g sb.ts sc ∧
    (∀ s ∈ t2, InHistGroup n g sb.ts s ∧ NotCountLine n s) ∧
    sb.value = some v ∧ sc.value = some c ∧ P.eq v c = false ∧ tsEq P sb.ts sb.ts = true ∧
    GroupClosed P n t g sb.ts (sb :: (t1 ++ sc :: t2)) grp rest)

end PromVerif.Spec.OMRules
