/-
Spec for C17, written from the property text ("OpenMetrics exactly when the Accept header lists the
application/openmetrics-text media type …, gzip … exactly when compression is enabled and the client lists gzip;
header values built from media-type / coding lists with parameters, q-values, whitespace and case variants").

A header value is GENERATED from a list of items.  An item is

    pre  media  post  ( ';' param )*

* `media` — the media-type / content-coding token.  It may contain any characters except ',' and ';', and neither
  starts nor ends with a character of the whitespace alphabet (it may be empty: `,,` has empty items).  Near-miss
  tokens (`application/openmetrics-text-foo`, `xapplication/openmetrics-text`, `x-gzip`, `gzipx`) are just other tokens.
* `pre`, `post` — optional whitespace, any string over the whitespace alphabet `isWs` (the 29 code points Python's
  `str.isspace` accepts; a superset of HTTP's OWS = SP / HTAB).
* `params` — raw parameter texts (`q=0.5`, ` version=1.0.0`, `charset=utf-8 `): any characters except ',' and ';'.

Items are joined by ','.  `lists t hdr` : some item's token is `t`;  `listsCI t hdr` : … up to ASCII case.
`Lemmas.Http.grammar_total` shows that EVERY string is the rendering of a well-formed item list, so nothing is
excluded by stating the theorems over item lists.
-/
import PromVerif.Model.Http

namespace PromVerif.Spec.Http
open PromVerif.Model.Http (Str Fmt)

/-- whitespace alphabet of the grammar -/
def wsCodes : List Nat :=
  [0x9, 0xa, 0xb, 0xc, 0xd, 0x1c, 0x1d, 0x1e, 0x1f, 0x20, 0x85, 0xa0, 0x1680,
   0x2000, 0x2001, 0x2002, 0x2003, 0x2004, 0x2005, 0x2006, 0x2007, 0x2008, 0x2009, 0x200a,
   0x2028, 0x2029, 0x202f, 0x205f, 0x3000]

def isWs (c : Char) : Bool := wsCodes.contains c.toNat

structure Item where
  pre : Str
  media : Str
  post : Str
  params : List Str

structure Item.WF (it : Item) : Prop where
  pre_ws : ∀ c ∈ it.pre, isWs c = true
  post_ws : ∀ c ∈ it.post, isWs c = true
  media_comma : ',' ∉ it.media
  media_semi : ';' ∉ it.media
  media_head : ∀ c, it.media.head? = some c → isWs c = false
  media_last : ∀ c, it.media.getLast? = some c → isWs c = false
  params_comma : ∀ p ∈ it.params, ',' ∉ p
  params_semi : ∀ p ∈ it.params, ';' ∉ p

def renderParams (ps : List Str) : Str := ps.flatMap fun p => ';' :: p

def Item.render (it : Item) : Str := it.pre ++ it.media ++ it.post ++ renderParams it.params

/-- items joined by ',' -/
def joinComma : List Str → Str
  | [] => []
  | [p] => p
  | p :: q :: r => p ++ ',' :: joinComma (q :: r)

def render (items : List Item) : Str := joinComma (items.map Item.render)

/-- the header value `hdr` lists the token `t` -/
def lists (t : Str) (hdr : Str) : Prop :=
  ∃ items : List Item, (∀ it ∈ items, it.WF) ∧ render items = hdr ∧ t ∈ items.map Item.media

/-- ASCII case folding (content codings are case-insensitive, RFC 9110 §8.4.1) -/
def foldAscii (c : Char) : Char := if 'A' ≤ c ∧ c ≤ 'Z' then Char.ofNat (c.toNat + 32) else c

def ciEq (a b : Str) : Prop := a.map foldAscii = b.map foldAscii

instance (a b : Str) : Decidable (ciEq a b) := by unfold ciEq; infer_instance

/-- the header value `hdr` lists the token `t` up to ASCII case -/
def listsCI (t : Str) (hdr : Str) : Prop :=
  ∃ items : List Item, (∀ it ∈ items, it.WF) ∧ render items = hdr ∧ ∃ m ∈ items.map Item.media, ciEq m t

/-! literals of the property text -/
def omMediaType : Str := "application/openmetrics-text".toList
def gzipCoding : Str := "gzip".toList
def nameKey : Str := "name[]".toList
def allow : Str × Str := ("Allow".toList, "OPTIONS,GET".toList)
def statusOK : Str := "200 OK".toList
def status405 : Str := "405 Method Not Allowed".toList
def contentTypeName : Str := "Content-Type".toList
def contentEncoding : Str × Str := ("Content-Encoding".toList, "gzip".toList)

/-- the content type that announces each body format -/
def contentType : Fmt → Str
  | .text => "text/plain; version=0.0.4; charset=utf-8".toList
  | .om => "application/openmetrics-text; version=1.0.0; charset=utf-8".toList

end PromVerif.Spec.Http
