/-
Spec/Conc — the LOCK PROTOCOL property C02 speaks about, written from the property text (not from the code):

  * which lock guards which shared attribute, per value back-end (`guard`);
  * the order in which locks may nest: registry < parent < value / global (`rank`);
  * `wellLockedB bk sk`: every read / write / rmw / copy / iterate of `x` in skeleton `sk` happens inside
    `withLock (guard x)`, a plain write that does not follow a read of the same critical section is flagged as needing a
    register-independent update (`needBlind`), an iteration over `x` itself (not over a snapshot) lies inside the guard and is
    closed before the guard is released, acquisitions go strictly up in rank (so no lock is acquired while held), all
    brackets match;
  * `noUserInLock sk`: no user code is called and nothing is yielded while a lock is held — demanded of the collect paths;
  * what "one shared child" means: the child table as a finite map and lookup-or-create on it.
The checks are evaluated on the CANONICAL code of a skeleton (one object of each kind) with the code of the LIBRARY callees
(child construction, the children's samples, describe/collect of a built-in metric) spliced in, so that the rank order is
checked on the real nested scopes; `Lemmas/ConcSpec` transports them to calls on arbitrary objects.
-/
import PromVerif.Lemmas.ConcCompose

namespace PromVerif.Spec.Conc
open PromVerif.Generated.Locks PromVerif.Model.Conc

inductive Backend | mutex | mmap
deriving DecidableEq, Repr

/-- the lock that guards each shared attribute -/
def guard : Backend → Var → LockId
  | .mutex, .value => .value
  | .mutex, .exemplar => .value
  | .mutex, .timestamp => .value
  | .mmap, .value => .global
  | .mmap, .exemplar => .global
  | .mmap, .timestamp => .global
  | _, .metrics => .parent
  | _, .collectorToNames => .registry
  | _, .namesToCollectors => .registry
  | _, .targetInfo => .registry
  | _, .files => .global
  | _, .values => .global
  | _, .pid => .global
  | _, .file => .global

/-- nesting order: registry < parent < value / global -/
def rank : LockId → Nat
  | .registry => 0
  | .parent => 1
  | .value => 2
  | .global => 2

def allVars : List Var :=
  [.value, .exemplar, .timestamp, .metrics, .collectorToNames, .namesToCollectors, .targetInfo, .files, .values, .pid, .file]

def allLocks : List LockId := [.registry, .parent, .value, .global]

theorem mem_allVars (x : Var) : x ∈ allVars := by cases x <;> simp [allVars]
theorem mem_allLocks (l : LockId) : l ∈ allLocks := by cases l <;> simp [allLocks]

def isL (g : LockId) : LockId → Bool := fun l => decide (l = g)
def isV (x : Var) : Var → Bool := fun y => decide (y = x)
def never {α : Type} : α → Bool := fun _ => false

/-- variables whose plain `write` does not follow a read/rmw/write of the same critical section: the update such a store
performs must not depend on what the thread read earlier -/
def needBlind : List Tok → List Var → List Var
  | [], _ => []
  | .enter _ :: r, _ => needBlind r []
  | .exit _ :: r, _ => needBlind r []
  | .read x :: r, ld => needBlind r (x :: ld)
  | .copy x :: r, ld => needBlind r (x :: ld)
  | .rmw x :: r, ld => needBlind r (x :: ld)
  | .write x :: r, ld => if ld.contains x then needBlind r ld else x :: needBlind r (x :: ld)
  | .iterB _ :: r, ld => needBlind r ld
  | .iterE _ :: r, ld => needBlind r ld
  | .call _ _ :: r, ld => needBlind r ld
  | .yield :: r, ld => needBlind r ld

/-- canonical code of sub-call `k` of a composite call: one object of each kind, call markers only -/
def canonCodeK (k : Nat) (sk : List Sk) : List CMicro := compile (canon k) noCb sk

/-- what the LIBRARY callees run (user callbacks stay opaque markers), so that the scopes they open are checked nested inside
the caller's:
  * `childCtor` — `labels()` constructs the child while HOLDING the parent lock; the child's value constructor takes no lock
    in memory and the global lock in the multiprocess store (`MmapedValue.__init__`);
  * `samples` — `_multi_samples` asks each child for its samples: `_child_samples` → `value.get()` (+ `get_exemplar()`);
  * `descFunc` — `register()` calls `describe()` / (auto-describe) `collect()` while HOLDING the registry lock; for a built-in
    metric the worst case is its `collect()`: `_multi_samples` (parent lock) and the children's `get()` (value / global lock). -/
def valueReads (bk : Backend) (k : Nat) : List CMicro :=
  match bk with
  | .mutex => canonCodeK k MutexValue_get ++ canonCodeK k MutexValue_get_exemplar
  | .mmap => canonCodeK k MmapedValue_get

def libCb (bk : Backend) : Callee → List CMicro
  | .childCtor => (match bk with | .mutex => [] | .mmap => canonCodeK 1 MmapedValue_init)
  | .samples => valueReads bk 2
  | .descFunc => canonCodeK 3 MetricWrapperBase_multi_samples ++ valueReads bk 4
  | _ => []

/-- canonical code of a skeleton with the library callees spliced in -/
def canonCode (bk : Backend) (sk : List Sk) : List CMicro := compile (canon 0) (libCb bk) sk

/-- store labels that must not depend on earlier reads: those of the skeleton itself (sub-call 0) and of the spliced child
constructor (sub-call 1) -/
def blindSet (bk : Backend) (sk : List Sk) : CLabel → Bool := fun x =>
  match x.2 with
  | 0 => (needBlind (flatList sk) []).contains x.1
  | 1 => (match bk with
          | .mutex => false
          | .mmap => (flatList sk).contains (.call false .childCtor) &&
                     (needBlind (flatList MmapedValue_init) []).contains x.1)
  | _ => false

/-- data + iteration discipline of the canonical code for guard predicate `isG` and cell predicate `isX` -/
def closedB (isG : LockId → Bool) (isX : Var → Bool) (bl : CLabel → Bool) (code : List CMicro) : Bool :=
  discP isG isX bl code .out && (endModeP isG isX code .out == .out) &&
  discItP isG isX code false false && (endItP isG isX code false false == (false, false))

/-- the lock protocol, checked on canonical code; `bl` = the store labels assumed independent of earlier reads -/
def wellLockedCode (bk : Backend) (bl : CLabel → Bool) (code : List CMicro) : Bool :=
  allVars.all (fun x => closedB (isL (guard bk x)) (isV x) bl code) &&
  allLocks.all (fun g => closedB (isL g) never bl code) &&
  (wfRun (rankOrder rank) code [] == some [])

def wellLockedB (bk : Backend) (sk : List Sk) : Bool := wellLockedCode bk (blindSet bk sk) (canonCode bk sk)

/-- no `callUser`, no `yield` while any lock is held (depth = number of open `enter`s) -/
def noUserInLockToks : List Tok → Nat → Bool
  | [], _ => true
  | .enter _ :: r, d => noUserInLockToks r (d + 1)
  | .exit _ :: r, d => noUserInLockToks r (d - 1)
  | .call true _ :: r, d => d == 0 && noUserInLockToks r d
  | .yield :: r, d => d == 0 && noUserInLockToks r d
  | _ :: r, d => noUserInLockToks r d

def noUserInLock (sk : List Sk) : Bool := noUserInLockToks (flatList sk) 0

/-- the skeleton sets of the two value back-ends (Info / Enum carry their own lock and exist in-memory only) -/
def mutexSet : List (List Sk) :=
  [MutexValue_inc, MutexValue_set, MutexValue_set_exemplar, MutexValue_get, MutexValue_get_exemplar,
   MetricWrapperBase_labels, MetricWrapperBase_remove, MetricWrapperBase_clear, MetricWrapperBase_multi_samples,
   Info_info, Info_child_samples, Enum_state, Enum_child_samples,
   CollectorRegistry_register, CollectorRegistry_unregister, CollectorRegistry_collect,
   CollectorRegistry_set_target_info, CollectorRegistry_get_target_info, RestrictedRegistry_collect]

def mmapSet : List (List Sk) :=
  [MmapedValue_init, MmapedValue_inc, MmapedValue_set, MmapedValue_get,
   MetricWrapperBase_labels, MetricWrapperBase_remove, MetricWrapperBase_clear, MetricWrapperBase_multi_samples,
   CollectorRegistry_register, CollectorRegistry_unregister, CollectorRegistry_collect,
   CollectorRegistry_set_target_info, CollectorRegistry_get_target_info, RestrictedRegistry_collect]

def skeletonsOf : Backend → List (List Sk)
  | .mutex => mutexSet
  | .mmap => mmapSet

/-- the paths on which user code runs while the registry / a parent is being collected -/
def collectPaths : List (List Sk) :=
  [CollectorRegistry_collect, RestrictedRegistry_collect, MetricWrapperBase_multi_samples]

/-! ### collect returns values, not references to state that is later changed -/

/-- the shared objects a collect hands out BY REFERENCE inside its samples: the label dict of an `Info` (`Sample('_info',
self._value, …)`) and the registry's target-info dict (`_target_info_metric`, `get_target_info`).  A scraper reads them after
the lock is released, so they may only ever be REBOUND to a fresh object, never changed in place.  (The child table and the
collector table are handed out as copies; floats are immutable.) -/
def handedOut (method : String) : List Var :=
  (if method.startsWith "Info_" || method.startsWith "Enum_" then [Var.value] else []) ++ [Var.targetInfo]

def noInPlaceOnHandedOut (tbl : List (String × List Var)) : Bool :=
  tbl.all (fun e => (handedOut e.1).all (fun x => !e.2.contains x))

/-! ### one shared child -/

/-- the child table of a labelled parent: label values ↦ child identity -/
abbrev Tbl := List (Nat × Nat)

/-- `if k not in <table as looked at>: table[k] = c` -/
def ensure (kc : Nat × Nat) (seen cell : Tbl) : Tbl :=
  if (seen.lookup kc.1).isSome then cell else (kc.1, kc.2) :: cell

/-- sub-map order -/
def Tbl.le (a b : Tbl) : Prop := ∀ k c, a.lookup k = some c → b.lookup k = some c

/-! ### calls on arbitrary objects -/

/-- concrete locks and cells: (kind, object id) -/
abbrev ILock := LockId × Nat
abbrev ICell := Var × Nat

/-- the lock object that guards cell `(x, n)`: the object's own lock, except that the multiprocess store has ONE global lock -/
def guardOf (bk : Backend) (c : ICell) : ILock :=
  (guard bk c.1, if guard bk c.1 = .global then 0 else c.2)

def irank : ILock → Nat := fun l => rank l.1

/-- one call of a library method: its canonical code, the store labels assumed independent of earlier reads, the objects its
abstract lock / attribute names denote, and the update each store label stands for -/
structure Call (U : Type) where
  code0 : List CMicro
  bl0 : CLabel → Bool
  lobj : LockId → Nat
  vobj : Var → Nat
  lab : CLabel → U

/-- a call of the method with skeleton `sk` -/
def Call.ofSk {U : Type} (bk : Backend) (sk : List Sk) (lobj : LockId → Nat) (vobj : Var → Nat) (lab : Var → U) : Call U :=
  { code0 := canonCode bk sk, bl0 := blindSet bk sk, lobj := lobj, vobj := vobj, lab := fun x => lab x.1 }

/-- the micro-step code of a call: its canonical code renamed to the objects it is made on -/
def Call.code {U : Type} (c : Call U) : List (Micro ILock ICell U) :=
  c.code0.map (Micro.map (fun l => (l, c.lobj l)) (fun x => (x, c.vobj x)) c.lab)

/-- the call binds each abstract lock to the lock object that guards the cells it binds -/
def Call.Respects {U : Type} (bk : Backend) (c : Call U) : Prop :=
  ∀ x, c.lobj (guard bk x) = (guardOf bk (x, c.vobj x)).2

/-- the labels assumed blind are bound to updates that do not depend on what the thread read earlier -/
def Call.BlindOk {U : Type} (blind : U → Bool) (c : Call U) : Prop :=
  ∀ x, c.bl0 x = true → blind (c.lab x) = true

/-- a thread's program: the concatenated code of its calls -/
def progOf {U : Type} (calls : List (Call U)) : List (Micro ILock ICell U) := (calls.map Call.code).flatten

/-- every call of every thread uses a well-locked skeleton on consistently bound objects -/
def GoodThreads {U : Type} (bk : Backend) (blind : U → Bool) (threads : List (List (Call U))) : Prop :=
  ∀ calls ∈ threads, ∀ c ∈ calls, wellLockedCode bk c.bl0 c.code0 = true ∧ c.Respects bk ∧ c.BlindOk blind

end PromVerif.Spec.Conc
