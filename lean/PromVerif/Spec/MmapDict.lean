/-
Spec for C10 / C11, written from the property text: the store is an insertion-ordered map
key → (value, timestamp).  Every key appears once, in first-write order, with the most recently written value and
timestamp bit for bit; touching an absent key (read_value) inserts it at (0, 0); reopening changes nothing.
-/
namespace PromVerif.Spec.MmapDict

abbrev Key := List Char
abbrev Store := List (Key × UInt64 × UInt64)

/-- replace the entry of `k` where it stands, or append it -/
def Store.write : Store → Key → UInt64 → UInt64 → Store
  | [], k, v, t => [(k, v, t)]
  | e :: s, k, v, t => if e.1 = k then (k, v, t) :: s else e :: Store.write s k v t

def Store.has (s : Store) (k : Key) : Bool := s.any (fun e => e.1 == k)

/-- `read_value` of an absent key initialises it with zero value and zero timestamp (bit pattern 0 = +0.0) -/
def Store.touch (s : Store) (k : Key) : Store := if s.has k then s else s ++ [(k, 0, 0)]

def Store.get (s : Store) (k : Key) : Option (UInt64 × UInt64) := (s.find? (fun e => e.1 == k)).map (·.2)

inductive Op
  | write (k : Key) (v t : UInt64)
  | read (k : Key)
  | reopen
deriving Repr

def step (s : Store) : Op → Store
  | .write k v t => s.write k v t
  | .read k => s.touch k
  | .reopen => s

def run (s : Store) (ops : List Op) : Store := ops.foldl step s

/-- the key an operation may have to create -/
def Op.key? : Op → Option Key
  | .write k _ _ => some k
  | .read k => some k
  | .reopen => none

/-- What a reader may see at a cut point of a history that starts in state `s`: the state after some prefix of the
completed operations, optionally with the next operation's new key present at (0, 0). -/
def PrefixFrom (s : Store) (ops : List Op) (r : Store) : Prop :=
  ∃ j, j ≤ ops.length ∧
    (r = run s (ops.take j) ∨
     ∃ k, (ops.drop j).head?.bind Op.key? = some k ∧ (run s (ops.take j)).has k = false ∧
          r = run s (ops.take j) ++ [(k, 0, 0)])

/-- … for the history of a fresh writer -/
def PrefixState (ops : List Op) (r : Store) : Prop := PrefixFrom [] ops r

/-- the (value, timestamp) pairs a history ever wrote for `k`, plus the initial zero pair -/
def Written (ops : List Op) (k : Key) (v t : UInt64) : Prop :=
  (∃ op ∈ ops, op.key? = some k) ∧ ((v = 0 ∧ t = 0) ∨ Op.write k v t ∈ ops)

end PromVerif.Spec.MmapDict
