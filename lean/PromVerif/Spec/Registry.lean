/-
Declarative side of C06 / C07, written from the property statements (not from the code).

C06: "a described family claims its own name plus the suffixes its type exposes (_total, _created, _sum, _count,
      _bucket, _gsum, _gcount, _info) and configured target info claims target_info"
C07: "target info (if set) followed by the families of every currently registered collector exactly once, in
      registration order, and nothing from unregistered ones … exactly those samples of a full collection whose
      sample name is in the set, under an unchanged family name, type, help and unit, omits families left without
      samples"
-/
import PromVerif.Model.Registry

namespace PromVerif.Spec.Registry
open PromVerif.Py PromVerif.Model.Registry

/-- the suffixes a family of a type exposes (OpenMetrics): counter `_total _created`, summary `_sum _count _created`,
histogram `_bucket _sum _count _created`, gaugehistogram `_bucket _gsum _gcount`, info `_info`, the rest none -/
def suffixes : MType → List (List Char)
  | .counter => [['_', 't', 'o', 't', 'a', 'l'], ['_', 'c', 'r', 'e', 'a', 't', 'e', 'd']]
  | .summary => [['_', 's', 'u', 'm'], ['_', 'c', 'o', 'u', 'n', 't'], ['_', 'c', 'r', 'e', 'a', 't', 'e', 'd']]
  | .histogram => [['_', 'b', 'u', 'c', 'k', 'e', 't'], ['_', 's', 'u', 'm'], ['_', 'c', 'o', 'u', 'n', 't'],
                   ['_', 'c', 'r', 'e', 'a', 't', 'e', 'd']]
  | .gaugehistogram => [['_', 'b', 'u', 'c', 'k', 'e', 't'], ['_', 'g', 's', 'u', 'm'], ['_', 'g', 'c', 'o', 'u', 'n', 't']]
  | .info => [['_', 'i', 'n', 'f', 'o']]
  | .gauge => []
  | .unknown => []
  | .stateset => []

/-- the eight suffixes named in the statement of C06 -/
def statementSuffixes : List (List Char) :=
  [['_', 't', 'o', 't', 'a', 'l'], ['_', 'c', 'r', 'e', 'a', 't', 'e', 'd'], ['_', 's', 'u', 'm'],
   ['_', 'c', 'o', 'u', 'n', 't'], ['_', 'b', 'u', 'c', 'k', 'e', 't'], ['_', 'g', 's', 'u', 'm'],
   ['_', 'g', 'c', 'o', 'u', 'n', 't'], ['_', 'i', 'n', 'f', 'o']]

/-- names claimed by one described family -/
def familyClaims (n : Name) (t : MType) : List Name := n :: (suffixes t).map (fun suf => n ++ suf)

/-- names a collector claims in a registry with the given auto-describe flag -/
def claims (autoDescribe : Bool) (c : Collector) : List Name :=
  match described autoDescribe c with
  | none => []
  | some ms => ms.flatMap fun m => familyClaims m.1 m.2

/-- `n` is claimed in `s`: by a registered collector, or it is `target_info` and target info is configured -/
def Claimed (s : State) (n : Name) : Prop :=
  (∃ c ns, (c, ns) ∈ s.collectorToNames ∧ n ∈ claims s.autoDescribe c) ∨ (n = tiName ∧ truthy s.targetInfo = true)

/-! ### C07: the reference registration list, driven by the calls and whether they raised -/

/-- registered collectors in registration order after one call (`raised` = the call raised) -/
def regStep (regs : List Collector) : Op → Bool → List Collector
  | .register c, false => if c ∈ regs then regs else regs ++ [c]
  | .unregister c, false => regs.filter (fun r => decide (r ≠ c))
  | _, _ => regs

def tiStep (ti : Option Labels) : Op → Bool → Option Labels
  | .setTargetInfo l, false => l
  | _, _ => ti

/-- fold over a history paired with its outcomes -/
def regsAfter (regs : List Collector) : List Op → List (Option PyErr) → List Collector
  | op :: ops, out :: outs => regsAfter (regStep regs op out.isSome) ops outs
  | _, _ => regs

def tiAfter (ti : Option Labels) : List Op → List (Option PyErr) → Option Labels
  | op :: ops, out :: outs => tiAfter (tiStep ti op out.isSome) ops outs
  | _, _ => ti

/-- what a full collection must yield -/
def collectSpec (ti : Option Labels) (regs : List Collector) : List Family :=
  tiFamily ti ++ regs.flatMap (fun c => c.families)

/-- the filter of C07: keep the samples whose name is listed; name, type, help and unit unchanged; a family left
without samples is omitted -/
def restrictTo (names : List Name) (f : Family) : Option Family :=
  match f.samples.filter (fun smp => decide (smp.name ∈ names)) with
  | [] => none
  | smp :: rest => some { f with samples := smp :: rest }

/-! ### C06: the invariant -/

/-- the two maps are mutually consistent: `namesToCollectors` is exactly the graph of `collectorToNames`, plus
`target_info ↦ _EmptyCollector` iff target info is configured; both have unique keys; the recorded names of a
collector are the names it claims -/
structure Inv (s : State) : Prop where
  c2nNodup : (s.collectorToNames.map Prod.fst).Nodup
  n2cNodup : (s.namesToCollectors.map Prod.fst).Nodup
  stored : ∀ c ns, (c, ns) ∈ s.collectorToNames → ns = getNames s.autoDescribe c
  graph : ∀ n o, (n, o) ∈ s.namesToCollectors ↔
      ((∃ c ns, o = Owner.coll c ∧ (c, ns) ∈ s.collectorToNames ∧ n ∈ ns) ∨
       (o = Owner.empty ∧ n = tiName ∧ truthy s.targetInfo = true))

/-! ### C07: side conditions -/

/-- every sample name a registered collector emits is among the names it claimed (a real precondition: the registry
finds collectors only through the names they claimed) -/
def ClaimsCover (s : State) : Prop :=
  ∀ c ns, (c, ns) ∈ s.collectorToNames → ∀ f, f ∈ c.families → ∀ smp, smp ∈ f.samples → smp.name ∈ ns

end PromVerif.Spec.Registry
