/-
Spec for C19: the Pushgateway's reading of a request path, written from the property text
(and from what the Pushgateway does, see the notes), not from the client code.

  * the path after `/metrics/` is split on `/` and the segments are taken in pairs `name/value`;
  * a name ending in `@base64` carries a URL-safe base64 value: trailing `=` are trimmed and the rest is decoded
    without padding (Go: `base64.RawURLEncoding.DecodeString(strings.TrimRight(s, "="))`), so the lone `=` is the
    empty string; the label name is the segment without the suffix;
  * any other value is URL-unescaped: `%XX` → the byte, everything else its own UTF-8 bytes; the bytes must be
    UTF-8.  TWO readings of `+` are specified, and the property must hold under both:
      - `decodePathGo`: **path unescaping** — `+` is a literal plus.  This is what the Pushgateway does (Go's
        `URL.Path` / `url.PathUnescape`);
      - `decodePath`: **form decoding** — `+` → space (`unquote_plus`, Go's `url.QueryUnescape`);
  * no segment is empty: the HTTP server cleans `//` and a trailing `/` out of the path before routing, which is
    why the Pushgateway introduced `name@base64/=` for the empty value; the decoder rejects an empty segment;
  * a plain (non-base64) value never carries a `/`: the HTTP server unescapes `%2F` before routing, so a
    slash inside a plain segment would have acted as a separator — the decoder rejects such a segment.

The decoder is strict (`none` on a malformed path); nothing here mentions the client's encoder.
-/
import PromVerif.Py.Str

namespace PromVerif.Spec.Gateway
open PromVerif.Py

/-- `bytes.decode('utf-8')`, strict -/
def utf8Decode? (bs : List UInt8) : Option Str := (bs.toByteArray.utf8Decode?).map Array.toList

/-- value of a character of the URL-safe alphabet -/
def b64Val (c : Char) : Option Nat :=
  if 'A' ≤ c && c ≤ 'Z' then some (c.toNat - 65)
  else if 'a' ≤ c && c ≤ 'z' then some (c.toNat - 97 + 26)
  else if '0' ≤ c && c ≤ '9' then some (c.toNat - 48 + 52)
  else if c = '-' then some 62
  else if c = '_' then some 63
  else none

/-- unpadded URL-safe base64: four characters give three bytes, a tail of two gives one byte, of three two -/
def b64rawDecode : List Char → Option (List UInt8)
  | [] => some []
  | [_] => none
  | [c0, c1] =>
    match b64Val c0, b64Val c1 with
    | some v0, some v1 => some [UInt8.ofNat (v0 * 4 + v1 / 16)]
    | _, _ => none
  | [c0, c1, c2] =>
    match b64Val c0, b64Val c1, b64Val c2 with
    | some v0, some v1, some v2 => some [UInt8.ofNat (v0 * 4 + v1 / 16), UInt8.ofNat (v1 % 16 * 16 + v2 / 4)]
    | _, _, _ => none
  | c0 :: c1 :: c2 :: c3 :: rest =>
    match b64Val c0, b64Val c1, b64Val c2, b64Val c3, b64rawDecode rest with
    | some v0, some v1, some v2, some v3, some r =>
      some (UInt8.ofNat (v0 * 4 + v1 / 16) :: UInt8.ofNat (v1 % 16 * 16 + v2 / 4) :: UInt8.ofNat (v2 % 4 * 64 + v3) :: r)
    | _, _, _, _, _ => none

/-- base64 value of a `name@base64` segment -/
def b64decode (s : Str) : Option (List UInt8) := b64rawDecode (rstripSet (fun c => c = '=') s)

def hexVal (c : Char) : Option Nat :=
  if '0' ≤ c && c ≤ '9' then some (c.toNat - 48)
  else if 'a' ≤ c && c ≤ 'f' then some (c.toNat - 87)
  else if 'A' ≤ c && c ≤ 'F' then some (c.toNat - 55)
  else none

/-- URL-unescape to bytes: `%XX` → byte, any other character stands for itself; with `plus`, `+` → space -/
def unquoteBytes (plus : Bool) : List Char → Option (List UInt8)
  | [] => some []
  | c :: rest =>
    if c = '%' then
      match rest with
      | h :: l :: rest' =>
        match hexVal h, hexVal l, unquoteBytes plus rest' with
        | some x, some y, some r => some (UInt8.ofNat (x * 16 + y) :: r)
        | _, _, _ => none
      | _ => none
    else if plus && c = '+' then (unquoteBytes plus rest).map (32 :: ·)
    else (unquoteBytes plus rest).map (String.utf8EncodeChar c ++ ·)
termination_by s => s.length
decreasing_by all_goals simp_all <;> omega

def unquoteWith (plus : Bool) (s : Str) : Option Str := (unquoteBytes plus s).bind utf8Decode?

/-- `unquote_plus(s)`, strict (form decoding) -/
def unquotePlus (s : Str) : Option Str := unquoteWith true s

/-- `unquote(s)`, strict (path unescaping: `+` literal) -/
def unquote (s : Str) : Option Str := unquoteWith false s

/-- `s.split('/')` -/
def splitSlash : Str → List Str
  | [] => [[]]
  | c :: cs =>
    if c = '/' then [] :: splitSlash cs
    else match splitSlash cs with
      | [] => [[c]]
      | x :: xs => (c :: x) :: xs

def base64Suffix : Str := ['@', 'b', 'a', 's', 'e', '6', '4']

/-- `some name` when the segment is `name@base64` -/
def stripSuffix? (suf s : Str) : Option Str :=
  if endsWith suf s then some (s.take (s.length - suf.length)) else none

/-- one `name/value` pair of segments; `plus` selects the reading of `+` in a plain value -/
def decodePairWith (plus : Bool) (k v : Str) : Option (Str × Str) :=
  if k = [] ∨ v = [] then none else
  match stripSuffix? base64Suffix k with
  | some k' => ((b64decode v).bind utf8Decode?).map (fun t => (k', t))
  | none =>
    match unquoteWith plus v with
    | some t => if t.contains '/' then none else some (k, t)
    | none => none

/-- pair up the segments and decode each pair; an odd number of segments is malformed -/
def decodePairsWith (plus : Bool) : List Str → Option (List (Str × Str))
  | [] => some []
  | [_] => none
  | k :: v :: rest =>
    match decodePairWith plus k v, decodePairsWith plus rest with
    | some p, some r => some (p :: r)
    | _, _ => none

def decodePathWith (plus : Bool) (path : Str) : Option (List (Str × Str)) := decodePairsWith plus (splitSlash path)

/-- the labels a Pushgateway reads from the path after `/metrics/` (path unescaping, `+` literal) -/
def decodePathGo (path : Str) : Option (List (Str × Str)) := decodePathWith false path

/-- the same path under form decoding (`+` → space) -/
def decodePath (path : Str) : Option (List (Str × Str)) := decodePathWith true path

def metricsInfix : Str := ['/', 'm', 'e', 't', 'r', 'i', 'c', 's', '/']

/-- the labels read from a whole URL, given the gateway's base URL -/
def decodeUrlWith (plus : Bool) (base url : Str) : Option (List (Str × Str)) :=
  if (base ++ metricsInfix).isPrefixOf url then decodePathWith plus (url.drop (base ++ metricsInfix).length) else none

def decodeUrlGo (base url : Str) : Option (List (Str × Str)) := decodeUrlWith false base url
def decodeUrl (base url : Str) : Option (List (Str × Str)) := decodeUrlWith true base url

/-- legacy label name `[a-zA-Z_][a-zA-Z0-9_]*` -/
def isLabelStart (c : Char) : Bool := ('a' ≤ c && c ≤ 'z') || ('A' ≤ c && c ≤ 'Z') || c = '_'
def isLabelChar (c : Char) : Bool := isLabelStart c || ('0' ≤ c && c ≤ '9')
def isLegacyLabelName : Str → Bool
  | [] => false
  | c :: cs => isLabelStart c && cs.all isLabelChar

/-- every label name of the grouping key is a legacy label name (the property's quantifier) -/
def LegacyNames (gk : List (Str × Str)) : Prop := ∀ kv ∈ gk, isLegacyLabelName kv.1 = true

instance (gk : List (Str × Str)) : Decidable (LegacyNames gk) := by unfold LegacyNames; infer_instance

end PromVerif.Spec.Gateway
