/-
C04 — OpenMetrics exposition and parser are mutually inverse: the declarative side, written from the property text
(properties.jsonl, C04), not from the code.

* `TsVal`, `tsDenote`, `otsDenote`: what a timestamp denotes.  The wire format carries seconds with at most nine
  fractional digits, so an exposed timestamp (`int`, `Timestamp(sec, nsec)` or a `float` given by its `repr`) denotes an
  exact count of nanoseconds — the decimal text truncated to nine fractional digits — except for floats whose `repr` is in
  exponent form (below 1e-4 or from 1e16 on), which denote the double itself.
* `IntLaw`: the facts about CPython's `int()` the timestamp theorems use (trusted base, re-validated by the harness).
* `ValTok`: a rendered number token and how the number parameters read it.
* `refP`: a small symbolic instance of the number parameters ("a float is its token") for kernel-evaluated examples and
  counter-examples.
* `SampleMatches`: equality of an exposed sample and a parsed sample on every field the property names.
-/
import PromVerif.Model.OMExpo
import PromVerif.Model.OMParse

set_option autoImplicit false

namespace PromVerif.Spec.OMRoundtrip
open PromVerif.Py PromVerif.Model PromVerif.Model.ParseCore PromVerif.Model.OMParse

/-! ## timestamps -/

/-- the value a timestamp denotes -/
inductive TsVal
  /-- an exact count of nanoseconds -/
  | nanos (n : Int)
  /-- a double, by its bit pattern (exponent-form float timestamps) -/
  | float (bits : Nat)
deriving DecidableEq, Repr

def nsPerSec : Nat := 1000000000

/-- a parsed timestamp: `Timestamp(sec, nsec)` denotes `sec + nsec / 1e9` (the stored `nsec` carries the sign) -/
def otsDenote : OTs → TsVal
  | .stamp s n => .nanos (s * nsPerSec + n)
  | .flt b => .float b

/-- the first nine fractional digits, zero-filled -/
def nineDigits (frac : Str) : Str := (frac ++ List.replicate 9 '0').take 9

/-- decimal text `[-]D+.D+` → nanoseconds, digits beyond the ninth dropped -/
def decimalNanos (r : Str) : Option Int :=
  let neg := r.head? == some '-'
  let body := if neg then r.drop 1 else r
  match splitFirst '.' body with
  | (a, some b) =>
    if !a.isEmpty && a.all isDigit && !b.isEmpty && b.all isDigit then
      let v : Int := ((parseDigits a * nsPerSec + parseDigits (nineDigits b) : Nat) : Int)
      some (if neg then -v else v)
    else none
  | (_, none) => none

/-- an exposed timestamp: an `int` counts seconds; a `Timestamp` is `sec + nsec / 1e9`; a `float` is read off its `repr` —
exponent form denotes the double, plain decimal form the decimal truncated to nanoseconds -/
def tsDenote (pyFloat : Str → Option Nat) : Ts → Option TsVal
  | .int n => some (.nanos (n * nsPerSec))
  | .stamp s n => some (.nanos (s * nsPerSec + n))
  | .flt r => if r.contains 'e' then (pyFloat r).map .float else (decimalNanos r).map .nanos

/-- what the theorems use about CPython's `int()` (base 10): ASCII digit strings with an optional minus sign are read
as written; text containing `.`, `e`, `I` or `N` is rejected -/
structure IntLaw (pyInt : Str → Option Int) : Prop where
  digits : ∀ d : Str, d ≠ [] → d.all isDigit = true → pyInt d = some (((parseDigits d : Nat) : Int))
  neg : ∀ d : Str, d ≠ [] → d.all isDigit = true → pyInt ('-' :: d) = some (-(((parseDigits d : Nat) : Int)))
  reject : ∀ s : Str, (∃ c ∈ s, c = '.' ∨ c = 'e' ∨ c = 'I' ∨ c = 'N') → pyInt s = none

/-- characters of a rendered number: digits, `e . + -` and the letters of `+Inf`, `-Inf`, `NaN` -/
def isNumChar (c : Char) : Bool :=
  isDigit c || c == 'e' || c == '.' || c == '+' || c == '-' || c == 'I' || c == 'n' || c == 'f' || c == 'N' || c == 'a'

/-- a float timestamp in plain decimal form `[-]D+.D+` -/
def PlainRepr (r : Str) : Prop :=
  ∃ (neg : Bool) (a b : Str), r = (if neg then ['-'] else []) ++ a ++ '.' :: b ∧
    a ≠ [] ∧ a.all isDigit = true ∧ b ≠ [] ∧ b.all isDigit = true ∧
    -- the sign of a negative value below one second cannot be represented by `Timestamp(0, nsec)`
    ¬ (neg = true ∧ parseDigits a = 0 ∧ parseDigits (nineDigits b) ≠ 0)

/-- a float timestamp in exponent form whose mantissa has fewer than nine fractional digits, read by `float()` as the
finite double `b` -/
def ExpRepr (P : Params) (r : Str) : Prop :=
  'e' ∈ r ∧ r ≠ [] ∧ (∀ c ∈ r, isNumChar c = true) ∧
    (∀ a p, splitFirst '.' r = (a, some p) → 'e' ∈ p.take 9) ∧
    ∃ b, P.pyFloat r = some b ∧ P.isNaN b = false ∧ P.isInf b = false

/-- the timestamps the round trip is stated for -/
def TsOK (P : Params) : Ts → Prop
  | .int _ => True
  | .stamp s n => 0 ≤ n ∧ n < nsPerSec ∧ (s < 0 → n = 0)
  | .flt r => PlainRepr r ∨ ExpRepr P r

/-! ## values -/

/-- a rendered number token read back by `float()` as `b` (and refused by `int()`) -/
structure ValTok (P : Params) (tok : Str) (b : Nat) : Prop where
  ne : tok ≠ []
  chars : ∀ c ∈ tok, isNumChar c = true
  notInt : P.pyInt tok = none
  flt : P.pyFloat tok = some b

/-! ## samples -/

/-- equality of an exposed and a parsed timestamp: by denoted value -/
def tsMatches (P : Params) : Option Ts → Option OTs → Prop
  | none, none => True
  | some t, some o => tsDenote P.pyFloat t = some (otsDenote o)
  | _, _ => False

/-- equality of an exposed and a parsed exemplar -/
def exemplarMatches (P : Params) : Option Exemplar → Option OExemplar → Prop
  | none, none => True
  | some e, some o => o.labels = sortByKey e.labels ∧
      (∃ b, P.pyFloat (Utils.floatToGoString e.value) = some b ∧ o.value = .flt b) ∧ tsMatches P e.ts o.ts
  | _, _ => False

/-- an exposed sample and a parsed sample agree on name, label set, value, timestamp and exemplar -/
structure SampleMatches (P : Params) (s : Sample) (o : OSample) : Prop where
  name : o.name = s.name
  labels : o.labels = some (sortByKey s.labels)
  value : ∃ b, P.pyFloat (Utils.floatToGoString s.value) = some b ∧ o.value = some (.flt b)
  ts : tsMatches P (s.ts.map (·.ts)) o.ts
  exemplar : exemplarMatches P s.exemplar o.exemplar
  nh : o.nh = none

/-! ## a symbolic instance of the number parameters -/

def refNat? (s : Str) : Option Nat := if !s.isEmpty && s.all isDigit then some (parseDigits s) else none

/-- `int()`: optional sign, ASCII digits -/
def refInt? : Str → Option Int
  | '-' :: cs => (refNat? cs).map (fun n => -((n : Int)))
  | '+' :: cs => (refNat? cs).map (fun n => (n : Int))
  | cs => (refNat? cs).map (fun n => (n : Int))

/-- a code for a number token: the characters as base-256 digits (injective on ASCII text) -/
def tokCode (s : Str) : Nat := s.foldl (fun a c => a * 256 + c.toNat) 1

/-- `float()`: any non-empty token of number characters that is not just signs, coded by its text -/
def refFloat? (s : Str) : Option Nat :=
  if !s.isEmpty && s.all isNumChar && s.any (fun c => isDigit c || c == 'I' || c == 'N') then some (tokCode s) else none

/-- the symbolic instance: a float IS its token; only the spellings the exposition writes are classified -/
def refP : Params where
  pyInt := refInt?
  pyFloat := refFloat?
  lt _ _ := false
  le _ _ := true
  eq a b := a == b
  isNaN b := b == tokCode cs!"NaN"
  isInf b := b == tokCode cs!"+Inf" || b == tokCode cs!"-Inf"
  isPosInf b := b == tokCode cs!"+Inf"
  isInteger _ := true
  intTooBig _ := false
  tsFloat _ _ := none
  reW c := c.isAlphanum || c == '_'
  reS c := c == ' '
  reD c := c.isDigit
  legacy := false

end PromVerif.Spec.OMRoundtrip
