/-
C04 — OpenMetrics exposition and parser are mutually inverse: the declarative side, written from the property text
(properties.jsonl, C04), not from the code.

* `TsVal`, `tsDenote`, `otsDenote`: what a timestamp denotes.  The wire format carries seconds with at most nine
  fractional digits, so an exposed timestamp (`int`, `Timestamp(sec, nsec)` or a `float` given by its `repr`) denotes an
  exact count of nanoseconds — the decimal text truncated to nine fractional digits — except for floats whose `repr` is in
  exponent form (below 1e-4 or from 1e16 on), which denote the double itself.
* `IntLaw`: the facts about CPython's `int()` the timestamp theorems use (trusted base, re-validated by the harness).
* `ValTok`: a rendered number token and how the number parameters read it.
* `refP`: a small symbolic instance of the number parameters ("a float is its token") for kernel-evaluated examples and
  counter-examples.
* `SampleMatches`: equality of an exposed sample and a parsed sample on every field the property names.
-/
import PromVerif.Model.OMExpo
import PromVerif.Model.OMParse

set_option autoImplicit false

namespace PromVerif.Spec.OMRoundtrip
open PromVerif.Py PromVerif.Model PromVerif.Model.ParseCore PromVerif.Model.OMParse

/-! ## timestamps -/

/-- the value a timestamp denotes -/
inductive TsVal
  /-- an exact count of nanoseconds -/
  | nanos (n : Int)
  /-- a double, by its bit pattern (exponent-form float timestamps) -/
  | float (bits : Nat)
deriving DecidableEq, Repr

def nsPerSec : Nat := 1000000000

/-- a parsed timestamp: `Timestamp(sec, nsec)` denotes `sec + nsec / 1e9` (the stored `nsec` carries the sign) -/
def otsDenote : OTs → TsVal
  | .stamp s n => .nanos (s * nsPerSec + n)
  | .flt b => .float b

/-- the first nine fractional digits, zero-filled -/
def nineDigits (frac : Str) : Str := (frac ++ List.replicate 9 '0').take 9

/-- decimal text `[-]D+.D+` → nanoseconds, digits beyond the ninth dropped -/
def decimalNanos (r : Str) : Option Int :=
  let neg := r.head? == some '-'
  let body := if neg then r.drop 1 else r
  match splitFirst '.' body with
  | (a, some b) =>
    if !a.isEmpty && a.all isDigit && !b.isEmpty && b.all isDigit then
      let v : Int := ((parseDigits a * nsPerSec + parseDigits (nineDigits b) : Nat) : Int)
      some (if neg then -v else v)
    else none
  | (_, none) => none

/-- an exposed timestamp, to the nanosecond AFTER TRUNCATION (digits of a float's decimal text beyond the ninth are dropped: the
wire format's `Timestamp` cannot carry them, so two floats that differ only there denote the same instant here; this is a
deliberate coarsening, not Python's `==`): an `int` counts seconds; a `Timestamp` is `sec + nsec / 1e9`; a `float` is read off its `repr` —
exponent form denotes the double, plain decimal form the decimal truncated to nanoseconds -/
def tsDenote (pyFloat : Str → Option Nat) : Ts → Option TsVal
  | .int n => some (.nanos (n * nsPerSec))
  | .stamp s n => some (.nanos (s * nsPerSec + n))
  | .flt r => if r.contains 'e' then (pyFloat r).map .float else (decimalNanos r).map .nanos

/-- what the theorems use about CPython's `int()` (base 10): ASCII digit strings with an optional minus sign are read
as written; text containing `.`, `e`, `I` or `N` is rejected -/
structure IntLaw (pyInt : Str → Option Int) : Prop where
  digits : ∀ d : Str, d ≠ [] → d.all isDigit = true → pyInt d = some (((parseDigits d : Nat) : Int))
  neg : ∀ d : Str, d ≠ [] → d.all isDigit = true → pyInt ('-' :: d) = some (-(((parseDigits d : Nat) : Int)))
  reject : ∀ s : Str, (∃ c ∈ s, c = '.' ∨ c = 'e' ∨ c = 'I' ∨ c = 'N') → pyInt s = none

/-- characters of a rendered number: digits, `e . + -` and the letters of `+Inf`, `-Inf`, `NaN` -/
def isNumChar (c : Char) : Bool :=
  isDigit c || c == 'e' || c == '.' || c == '+' || c == '-' || c == 'I' || c == 'n' || c == 'f' || c == 'N' || c == 'a'

/-- `float()` reads the text as the finite double `b` -/
def FiniteFloat (P : Params) (r : Str) : Prop := ∃ b, P.pyFloat r = some b ∧ P.isNaN b = false ∧ P.isInf b = false

/-- a float timestamp in plain decimal form `[-]D+.D+`; a negative one above -1 (`-0.5`, `-0.0`) cannot be carried by a
`Timestamp` (the sign sits on the second count) and stays a float (64745db): for it `float()` has to read the text -/
def PlainRepr (P : Params) (r : Str) : Prop :=
  ∃ (neg : Bool) (a b : Str), r = (if neg then ['-'] else []) ++ a ++ '.' :: b ∧
    a ≠ [] ∧ a.all isDigit = true ∧ b ≠ [] ∧ b.all isDigit = true ∧
    (neg = true → parseDigits a = 0 → FiniteFloat P r)

/-- a float timestamp in exponent form, read by `float()` as a finite double -/
def ExpRepr (P : Params) (r : Str) : Prop :=
  'e' ∈ r ∧ r ≠ [] ∧ (∀ c ∈ r, isNumChar c = true) ∧ FiniteFloat P r

/-- the timestamps the round trip is stated for: every `int`; every `Timestamp` object (its class invariant: the nanosecond
field below 1e9 in magnitude and carrying the sign of the second count); every finite `float` by its `repr`.  Not included:
`nan` / `inf` float timestamps — the exposition writes them, the parser rejects them on purpose ("Invalid timestamp") -/
def TsOK (P : Params) : Ts → Prop
  | .int _ => True
  | .stamp s n => (0 ≤ s → 0 ≤ n ∧ n < nsPerSec) ∧ (s < 0 → -(nsPerSec : Int) < n ∧ n ≤ 0)
  | .flt r => PlainRepr P r ∨ ExpRepr P r

/-! ## values -/

/-- a rendered number token read back by `float()` as `b` (and refused by `int()`) -/
structure ValTok (P : Params) (tok : Str) (b : Nat) : Prop where
  ne : tok ≠ []
  chars : ∀ c ∈ tok, isNumChar c = true
  notInt : P.pyInt tok = none
  flt : P.pyFloat tok = some b

/-! ## samples -/

/-- an exposed and a parsed timestamp are the same instant: equal denoted values, or a float written by its `repr` and read
back by `float()` as that very double -/
def tsSame (P : Params) (t : Ts) (o : OTs) : Prop :=
  tsDenote P.pyFloat t = some (otsDenote o) ∨ ∃ r b, t = .flt r ∧ o = .flt b ∧ P.pyFloat r = some b

/-- equality of an exposed and a parsed optional timestamp -/
def tsMatches (P : Params) : Option Ts → Option OTs → Prop
  | none, none => True
  | some t, some o => tsSame P t o
  | _, _ => False

/-- equality of an exposed and a parsed exemplar -/
def exemplarMatches (P : Params) : Option Exemplar → Option OExemplar → Prop
  | none, none => True
  | some e, some o => o.labels = sortByKey e.labels ∧
      (∃ b, P.pyFloat (Utils.floatToGoString e.value) = some b ∧ o.value = .flt b) ∧ tsMatches P e.ts o.ts
  | _, _ => False

/-- an exposed sample and a parsed sample agree on name, label set, value, timestamp and exemplar -/
structure SampleMatches (P : Params) (s : Sample) (o : OSample) : Prop where
  name : o.name = s.name
  labels : o.labels = some (sortByKey s.labels)
  value : ∃ b, P.pyFloat (Utils.floatToGoString s.value) = some b ∧ o.value = some (.flt b)
  ts : tsMatches P (s.ts.map (·.ts)) o.ts
  exemplar : exemplarMatches P s.exemplar o.exemplar
  nh : o.nh = none

/-! ## the converse: rendering parsed samples again -/

/-- how parsed numbers are written again (CPython, parameters): `repr(float(v))` of a parsed value, the double `float(v)`, and
`repr(f)` of a parsed float timestamp; the laws about them are stated where they are used (`BackLaws`) -/
structure Rerender where
  reprNum : Num → Str
  toF : Num → Nat
  reprFlt : Nat → Str

/-- a parsed timestamp as the exposition sees it: a `Timestamp` object, or a float by its `repr` -/
def tsBack (R : Rerender) : OTs → Ts
  | .stamp s n => .stamp s n
  | .flt b => .flt (R.reprFlt b)

def exBack (R : Rerender) (e : OExemplar) : Exemplar := ⟨e.labels, R.reprNum e.value, e.ts.map (tsBack R)⟩

/-- a parsed sample (not a native histogram) handed to the exposition again -/
def sampleBack (R : Rerender) (o : OSample) : Sample :=
  ⟨o.name, o.labels.getD [], R.reprNum (o.value.getD (.int 0)), o.ts.map (fun t => ⟨tsBack R t, 0⟩), o.exemplar.map (exBack R)⟩

def famBack (R : Rerender) (f : OFamily) : Family := ⟨f.name, f.doc, f.typ, f.unit, f.samples.map (sampleBack R)⟩

/-- the laws about the numbers of ONE parsed sample: its value (and its exemplar's) is rendered to a token that `float()` reads
as `float(v)`; a float timestamp `f` is rendered to a `repr` in the float grammar that `float()` reads back as `f`; no exemplar label
occupies the metric-name slot (`# {"x"} 1` is accepted as `{'__name__': 'x'}`) -/
structure BackLaws (P : Params) (R : Rerender) (o : OSample) : Prop where
  value : ∀ v, o.value = some v → ValTok P (Utils.floatToGoString (R.reprNum v)) (R.toF v)
  ts : ∀ b, o.ts = some (.flt b) → TsOK P (.flt (R.reprFlt b)) ∧ P.pyFloat (R.reprFlt b) = some b
  exValue : ∀ e, o.exemplar = some e → ValTok P (Utils.floatToGoString (R.reprNum e.value)) (R.toF e.value)
  exTs : ∀ e b, o.exemplar = some e → e.ts = some (.flt b) → TsOK P (.flt (R.reprFlt b)) ∧ P.pyFloat (R.reprFlt b) = some b
  exName : ∀ e, o.exemplar = some e → ∀ kv ∈ e.labels, kv.1 ≠ cs!"__name__"

/-- a parsed timestamp and what its re-rendering parses to: a `Timestamp` comes back as ITSELF; a float as the same instant -/
def otsSame (P : Params) (R : Rerender) : Option OTs → Option OTs → Prop
  | none, none => True
  | some (.stamp s n), some o => o = .stamp s n
  | some (.flt b), some o => tsSame P (.flt (R.reprFlt b)) o
  | _, _ => False

def oexSame (P : Params) (R : Rerender) : Option OExemplar → Option OExemplar → Prop
  | none, none => True
  | some e, some e' => e'.labels = sortByKey e.labels ∧ e'.value = .flt (R.toF e.value) ∧ otsSame P R e.ts e'.ts
  | _, _ => False

/-- a parsed sample and what its re-rendering parses to: the same name, the same label DICT (the exposition sorts by key), the
value as the double `float(v)`, timestamps by `otsSame`, the exemplar likewise -/
structure SampleSame (P : Params) (R : Rerender) (o o' : OSample) : Prop where
  name : o'.name = o.name
  labels : o'.labels = o.labels.map sortByKey
  value : o'.value = o.value.map (fun v => Num.flt (R.toF v))
  ts : otsSame P R o.ts o'.ts
  exemplar : oexSame P R o.exemplar o'.exemplar
  nh : o'.nh = none

/-- pointwise relation of two lists of equal length -/
inductive Forall2 {α β : Type} (R : α → β → Prop) : List α → List β → Prop
  | nil : Forall2 R [] []
  | cons {a : α} {b : β} {as : List α} {bs : List β} : R a b → Forall2 R as bs → Forall2 R (a :: as) (b :: bs)

/-! ## a symbolic instance of the number parameters -/

def refNat? (s : Str) : Option Nat := if !s.isEmpty && s.all isDigit then some (parseDigits s) else none

/-- `int()`: optional sign, ASCII digits -/
def refInt? : Str → Option Int
  | '-' :: cs => (refNat? cs).map (fun (n : Nat) => -((n : Nat) : Int))
  | '+' :: cs => (refNat? cs).map (fun (n : Nat) => ((n : Nat) : Int))
  | cs => (refNat? cs).map (fun (n : Nat) => ((n : Nat) : Int))

/-- a code for a number token: the characters as base-256 digits (injective on ASCII text) -/
def tokCode (s : Str) : Nat := s.foldl (fun a c => a * 256 + c.toNat) 1

def digitsOK (s : Str) : Bool := !s.isEmpty && s.all isDigit

/-- `D+ | D+.D* | .D+` -/
def mantissaOK (s : Str) : Bool :=
  match splitFirst '.' s with
  | (a, none) => digitsOK a
  | (a, some b) => (digitsOK a && b.all isDigit) || (a.isEmpty && digitsOK b)

def dropSign : Str → Str
  | '-' :: t => t
  | '+' :: t => t
  | s => s

/-- the ASCII float syntax CPython's `float()` accepts (underscores and surrounding blanks aside) -/
def floatSyntax (s : Str) : Bool :=
  let body := dropSign s
  body == cs!"Inf" || body == cs!"inf" || body == cs!"NaN" || body == cs!"nan" ||
    (match splitFirst 'e' body with
     | (m, none) => mantissaOK m
     | (m, some x) => mantissaOK m && digitsOK (dropSign x))

/-- thousand-millionths of a plain decimal `[-+]D+[.D{1,9}]` -/
def decScaled (s : Str) : Option Int :=
  let neg := s.head? == some '-'
  let v : Option Nat := match splitFirst '.' (dropSign s) with
    | (a, none) => if digitsOK a then some (parseDigits a * nsPerSec) else none
    | (a, some b) => if digitsOK a && digitsOK b && b.length ≤ 9 then some (parseDigits a * nsPerSec + parseDigits (nineDigits b)) else none
  v.map (fun (n : Nat) => if neg then -((n : Nat) : Int) else ((n : Nat) : Int))

/-- `float()`: a token in float syntax.  Codes: 0 = NaN, 1 = +Inf, 2 = -Inf, `4 + 2|v| (+1 when written with a minus sign)` for a
plain decimal of at most nine fractional digits (v in thousand-millionths), and an opaque code of the text otherwise -/
def refFloat? (s : Str) : Option Nat :=
  if !floatSyntax s then none
  else
    let body := dropSign s
    if body == cs!"NaN" || body == cs!"nan" then some 0
    else if body == cs!"Inf" || body == cs!"inf" then some (if s.head? == some '-' then 2 else 1)
    else match decScaled s with
      | some v => some (4 + 2 * v.natAbs + (if s.head? == some '-' then 1 else 0))
      | none => some (10 ^ 40 + tokCode s)

/-- the value behind a code -/
inductive RefVal
  | nan | pinf | ninf
  | fin (v : Int)
  | opaque (c : Nat)
deriving DecidableEq, Repr

def refDecode (b : Nat) : RefVal :=
  if b == 0 then .nan else if b == 1 then .pinf else if b == 2 then .ninf
  else if b ≥ 10 ^ 40 then .opaque b
  else if b < 4 then .nan
  else .fin (if (b - 4) % 2 == 1 then -(((b - 4) / 2 : Nat) : Int) else (((b - 4) / 2 : Nat) : Int))

def refNum : Num → RefVal
  | .int n => .fin (n * nsPerSec)
  | .flt b => refDecode b

def refLt : RefVal → RefVal → Bool
  | .fin a, .fin b => a < b
  | .ninf, .fin _ => true
  | .ninf, .pinf => true
  | .fin _, .pinf => true
  | _, _ => false

def refEq : RefVal → RefVal → Bool
  | .fin a, .fin b => a == b
  | .pinf, .pinf => true
  | .ninf, .ninf => true
  | .opaque a, .opaque b => a == b
  | _, _ => false

/-- the symbolic instance: decimals with at most nine fractional digits carry their value, the other spellings are opaque -/
def refP : Params where
  pyInt := refInt?
  pyFloat := refFloat?
  lt a b := refLt (refNum a) (refNum b)
  le a b := refLt (refNum a) (refNum b) || refEq (refNum a) (refNum b)
  eq a b := refEq (refNum a) (refNum b)
  isNaN b := b == 0
  isInf b := b == 1 || b == 2
  isPosInf b := b == 1
  isInteger b := match refDecode b with
    | .fin v => v % nsPerSec == 0
    | _ => false
  intTooBig _ := false
  tsFloat _ _ := none
  reW c := c.isAlphanum || c == '_'
  reS c := c == ' '
  reD c := c.isDigit
  legacy := false

end PromVerif.Spec.OMRoundtrip
