/-
C05 — the independent line grammar (spec S).

Written from the format descriptions (Prometheus text format 0.0.4, OpenMetrics 1.0 ABNF, the UTF-8 quoted-name
extension `{"name",label="v"}`, Graphite plaintext protocol `path SP value SP timestamp`), NOT from the library's
parsers.  Everything is Bool/Option valued and structurally recursive so the driver can run it.

  text line  := "# HELP " name SP help       help (text) := ( any char but '\' LF | '\' '\' | '\' 'n' )*   (0.0.4: a HELP docstring
                                                            knows exactly the escapes \\ and \n; '\"' is an invalid sequence)
                                                          help (OM)   := the body of a quoted string (escaped-string of the ABNF)
              | "# TYPE " name SP ("counter"|"gauge"|"summary"|"histogram"|"untyped")
              | sample
  OM line    := "# HELP " … | "# TYPE " name SP <OpenMetrics type> | "# UNIT " name SP unit | "# EOF" | sample exemplar?
  name       := bare legacy name  |  '"' quoted '"'
  sample     := bare-name [ '{' [labels] '}' ] SP value [ SP ts ]
              | '{' '"' quoted '"' [ ',' labels ] '}' SP value [ SP ts ]        (OM: one optional SP after that comma)
  labels     := label (',' label)*          label := (bare-label-name | '"' quoted '"') '=' '"' quoted '"'
  quoted     := ( any char but '"' '\' LF  |  '\' ('\' | '"' | 'n') )*
  value      := float token: one or more of [0-9A-Za-z.+-]          ts (text) := '-'? digit+      ts (OM) := float token
  exemplar   := SP '#' SP '{' [labels] '}' SP value [ SP ts ]         (OM only)
  graphite   := path SP value SP digit+        path := one or more printable ASCII characters other than SP
-/
namespace PromVerif.Spec.LineGrammar

abbrev Str := List Char

inductive Kind | help | type | unit | sample | eof
deriving Repr, DecidableEq, Inhabited

def Kind.name : Kind → String
  | .help => "help" | .type => "type" | .unit => "unit" | .sample => "sample" | .eof => "eof"

-- character classes, by code point -------------------------------------------------------------------------
def inRange (lo hi : Nat) (c : Char) : Bool := decide (lo ≤ c.toNat) && decide (c.toNat ≤ hi)
def isLower (c : Char) : Bool := inRange 97 122 c
def isUpper (c : Char) : Bool := inRange 65 90 c
def isDig (c : Char) : Bool := inRange 48 57 c
/-- `[a-zA-Z_]` -/
def labelFirst (c : Char) : Bool := isLower c || isUpper c || decide (c.toNat = 95)
/-- `[a-zA-Z0-9_]` -/
def labelRest (c : Char) : Bool := labelFirst c || isDig c
/-- `[a-zA-Z_:]` -/
def nameFirst (c : Char) : Bool := labelFirst c || decide (c.toNat = 58)
/-- `[a-zA-Z0-9_:]` -/
def nameRest (c : Char) : Bool := nameFirst c || isDig c
/-- characters of a number token: digits, letters (`e`, `Inf`, `NaN`, `inf`, `nan`), `.`, `+`, `-` -/
def numCh (c : Char) : Bool :=
  isDig c || isLower c || isUpper c || decide (c.toNat = 46) || decide (c.toNat = 43) || decide (c.toNat = 45)

def bareMetricName : Str → Bool
  | [] => false
  | c :: cs => nameFirst c && cs.all nameRest

def bareLabelName : Str → Bool
  | [] => false
  | c :: cs => labelFirst c && cs.all labelRest

def floatTok (s : Str) : Bool := !s.isEmpty && s.all numCh

def intTok : Str → Bool
  | '-' :: d => !d.isEmpty && d.all isDig
  | d => !d.isEmpty && d.all isDig

-- generic helpers ------------------------------------------------------------------------------------------
/-- Python `s.split(sep)` for a one-character separator -/
def splitOn (sep : Char) : Str → List Str
  | [] => [[]]
  | c :: cs =>
    if c = sep then [] :: splitOn sep cs
    else match splitOn sep cs with
      | [] => [[c]]
      | h :: t => (c :: h) :: t

def stripPrefix : Str → Str → Option Str
  | [], l => some l
  | _ :: _, [] => none
  | a :: p, b :: l => if a = b then stripPrefix p l else none

/-- body of a quoted string, after the opening quote; returns what follows the closing quote.
`esc` = the previous character was an unescaped backslash -/
def qscan (esc : Bool) : Str → Option Str
  | [] => none
  | c :: r =>
    if esc then
      if c = '\\' ∨ c = '"' ∨ c = 'n' then qscan false r else none
    else if c = '\\' then qscan true r
    else if c = '"' then some r
    else if c = '\n' then none
    else qscan false r

/-- HELP docstring of the text format 0.0.4: every backslash is half of `\\` or starts `\n`; no raw LF.
`esc` = the previous character was an unescaped backslash -/
def hscan (esc : Bool) : Str → Bool
  | [] => !esc
  | c :: r =>
    if esc then (if c = '\\' ∨ c = 'n' then hscan false r else false)
    else if c = '\\' then hscan true r
    else if c = '\n' then false
    else hscan false r

/-- the docstring of a HELP line: text format — `hscan`; OpenMetrics — an `escaped-string`, i.e. what may stand between
two quotes (no raw quote, backslash or LF; escapes `\\`, `\"`, `\n`) -/
def helpText (om : Bool) (t : Str) : Bool :=
  if om then qscan false (t ++ ['"']) == some [] else hscan false t

/-- inside a bare name of a metadata line: up to and including the separating space -/
def bareTail : Str → Option Str
  | [] => none
  | c :: r => if nameRest c then bareTail r else if c = ' ' then some r else none

/-- `name SP` at the start of the remainder of a metadata line; returns what follows the space -/
def metaName : Str → Option Str
  | [] => none
  | c :: r =>
    if nameFirst c then bareTail r
    else if c = '"' then
      match qscan false r with
      | some (' ' :: r') => some r'
      | _ => none
    else none

-- the sample-line automaton ----------------------------------------------------------------------------------
/-- which quoted string the automaton is in -/
inductive Q | mname | lname | lval | exname | exval
deriving Repr, DecidableEq

inductive St
  | dead
  | s0                                -- start of line
  | name                              -- in a bare metric name
  | b0                                -- after a leading '{': a quoted metric name must follow
  | q (k : Q) (esc : Bool)            -- inside a quoted string
  | qe (k : Q)                        -- just after its closing quote
  | lb (ex : Bool) (first : Bool)     -- a label must start here (`first`: or the closing brace)
  | lbq                               -- OpenMetrics: after `"name",` one optional space
  | ln (ex : Bool)                    -- in a bare label name
  | eq (ex : Bool)                    -- after '=': the opening quote of the value
  | al                                -- after the closing brace: the space before the value
  | v0 | v                            -- value token
  | t0 | tm | t                       -- after "value ": timestamp (or '#' in OpenMetrics)
  | tsp                               -- OpenMetrics: after "timestamp ": '#'
  | x0 | x1                           -- after '#', after "# "
  | xal | xv0 | xv | xt0 | xt         -- exemplar: after '}', value, timestamp
deriving Repr, DecidableEq

def labelStart (ex : Bool) (c : Char) : St :=
  if labelFirst c then .ln ex
  else if c = '"' then .q (if ex then .exname else .lname) false
  else .dead

def step (om : Bool) (st : St) (c : Char) : St :=
  match st with
  | .dead => .dead
  | .s0 => if nameFirst c then .name else if c = '{' then .b0 else .dead
  | .name => if nameRest c then .name else if c = '{' then .lb false true else if c = ' ' then .v0 else .dead
  | .b0 => if c = '"' then .q .mname false else .dead
  | .q k true => if c = '\\' ∨ c = '"' ∨ c = 'n' then .q k false else .dead
  | .q k false =>
    if c = '\\' then .q k true else if c = '"' then .qe k else if c = '\n' then .dead else .q k false
  | .qe .mname => if c = ',' then (if om then .lbq else .lb false false) else if c = '}' then .al else .dead
  | .qe .lname => if c = '=' then .eq false else .dead
  | .qe .exname => if c = '=' then .eq true else .dead
  | .qe .lval => if c = ',' then .lb false false else if c = '}' then .al else .dead
  | .qe .exval => if c = ',' then .lb true false else if c = '}' then .xal else .dead
  | .lbq => if c = ' ' then .lb false false else labelStart false c
  | .lb ex first =>
    if c = '}' then (if first then (if ex then .xal else .al) else .dead) else labelStart ex c
  | .ln ex => if labelRest c then .ln ex else if c = '=' then .eq ex else .dead
  | .eq ex => if c = '"' then .q (if ex then .exval else .lval) false else .dead
  | .al => if c = ' ' then .v0 else .dead
  | .v0 => if numCh c then .v else .dead
  | .v => if numCh c then .v else if c = ' ' then .t0 else .dead
  | .t0 =>
    if om then (if numCh c then .t else if c = '#' then .x0 else .dead)
    else (if isDig c then .t else if c = '-' then .tm else .dead)
  | .tm => if isDig c then .t else .dead
  | .t =>
    if om then (if numCh c then .t else if c = ' ' then .tsp else .dead)
    else (if isDig c then .t else .dead)
  | .tsp => if c = '#' then .x0 else .dead
  | .x0 => if c = ' ' then .x1 else .dead
  | .x1 => if c = '{' then .lb true true else .dead
  | .xal => if c = ' ' then .xv0 else .dead
  | .xv0 => if numCh c then .xv else .dead
  | .xv => if numCh c then .xv else if c = ' ' then .xt0 else .dead
  | .xt0 => if numCh c then .xt else .dead
  | .xt => if numCh c then .xt else .dead

def run (om : Bool) (st : St) (s : Str) : St := s.foldl (step om) st

def accepting : St → Bool
  | .v | .t | .xv | .xt => true
  | _ => false

def sampleLine (om : Bool) (l : Str) : Bool := accepting (run om .s0 l)

-- whole lines ------------------------------------------------------------------------------------------------
def typesText : List Str :=
  ["counter".toList, "gauge".toList, "summary".toList, "histogram".toList, "untyped".toList]

def typesOM : List Str :=
  ["counter".toList, "gauge".toList, "summary".toList, "histogram".toList, "gaugehistogram".toList,
   "unknown".toList, "info".toList, "stateset".toList]

/-- a unit as the OpenMetrics ABNF allows it without escapes: non-empty, no LF, no quote, no backslash -/
def unitTok (u : Str) : Bool :=
  !u.isEmpty && u.all (fun c => !(c == '\n') && !(c == '"') && !(c == '\\'))

/-- the kind of one line (without its LF) of the text format (`om = false`) or of OpenMetrics (`om = true`);
`none` = not a line of the format -/
def classify (om : Bool) (l : Str) : Option Kind :=
  match stripPrefix "# HELP ".toList l with
  | some r =>
    (match metaName r with
     | some t => if helpText om t then some .help else none
     | none => none)
  | none =>
  match stripPrefix "# TYPE ".toList l with
  | some r =>
    (match metaName r with
     | some t => if (if om then typesOM else typesText).contains t then some .type else none
     | none => none)
  | none =>
  match (if om then stripPrefix "# UNIT ".toList l else none) with
  | some r =>
    (match metaName r with
     | some u => if unitTok u then some .unit else none
     | none => none)
  | none =>
    if om && l == "# EOF".toList then some .eof
    else if sampleLine om l then some .sample
    else none

def recognise (om : Bool) (l : Str) : Bool := (classify om l).isSome

/-- a whole exposition: split on LF; the last piece must be empty (every line is LF-terminated) -/
def lineKinds (om : Bool) (doc : Str) : List (Option Kind) := (splitOn '\n' doc).map (classify om)

-- Graphite -----------------------------------------------------------------------------------------------------
def pathCh (c : Char) : Bool := inRange 33 126 c

/-- `path SP value SP timestamp` -/
def graphiteLine (l : Str) : Bool :=
  match splitOn ' ' l with
  | [p, v, t] => !p.isEmpty && p.all pathCh && floatTok v && !t.isEmpty && t.all isDig
  | _ => false

end PromVerif.Spec.LineGrammar
