/-
C12 — the comparison the property text prescribes, written from the text, not from the code.

"Collecting through the multiprocess collector yields the same series with the same values as ordinary in-process
collection of the same history.  The only differences are the intended ones: no `_created` series, no exemplars, a
`pid` label on gauges in all/liveall mode, sample order, and mostrecent gauges that were never set."

Both collections are flattened to `(family, sample name, labels, value)` and `normalise` removes exactly those
differences, producing pairs `((sample name, labels sorted by name), value)`:

* `_created`: a sample named `<family>_created` of a counter, summary or histogram family is dropped;
* exemplars: samples carry no exemplar in either model (`Metrics.Sample`, `Multiprocess.OutSample`) — nothing to remove;
* `pid`: for a gauge family declared in mode `all` / `liveall` the label named `pid` is dropped;
* order: labels are sorted by name; the result is compared as a SET of pairs (membership), which for lists without
  duplicate keys is equality of finite maps;
* never-set mostrecent gauges: a series of a gauge family declared in a mostrecent mode whose child has no accepted
  `set` call in the history (`NeverSet`, read off the reference history of C01) is dropped.

`normalise` is ONE function applied to both collections.
-/
import PromVerif.Model.Backends
import PromVerif.Spec.Metrics

namespace PromVerif.Spec.Backends
open PromVerif.Py PromVerif.Generated.Multiprocess
open PromVerif.Model.Metrics (Val Decl Kind Action Sample)
open PromVerif.Model.Multiprocess (Labels SKey OutMetric)
open PromVerif.Model.Backends
set_option autoImplicit false

variable {V : Type}

/-- one collected sample with the family it came from -/
structure Flat (V : Type) where
  fam : Str
  name : Str
  labels : Labels
  value : V

/-- in-process collection (`registry.collect()`: one family per declared metric, in declaration order) -/
def flatMutex (ds : List (MDecl V)) (fams : List (List (Sample V))) : List (Flat V) :=
  (ds.zip fams).flatMap (fun df => df.2.map (fun s => ⟨df.1.decl.name, s.name, s.labels, s.value⟩))

/-- multiprocess collection -/
def flatMp (out : List (OutMetric V)) : List (Flat V) :=
  out.flatMap (fun om => om.samples.map (fun s => ⟨om.name, s.name, s.labels, s.value⟩))

def declOf (ds : List (MDecl V)) (fam : Str) : Option (MDecl V) := ds.find? (fun d => d.decl.name = fam)

/-- does the family have `_created` samples in-process? -/
def hasCreated : Kind V → Bool
  | .counter => true
  | .summary => true
  | .histogram _ => true
  | _ => false

/-- gauge declared in mode all / liveall (the final `else` of the collector: one series per pid) -/
def pidMode (d : MDecl V) : Bool :=
  isGauge d && (d.mode = "all".toList || d.mode = "liveall".toList)

def hasSet : List (Action V) → Bool
  | [] => false
  | .set _ :: _ => true
  | _ :: r => hasSet r

/-- the series `(family, sorted labels)` belongs to a child that exists after the accepted calls and was never `set` -/
def neverSet (ds : List (MDecl V)) (hs : List (Spec.Metrics.Hist V)) (fam : Str) (labels : Labels) : Bool :=
  (ds.zip hs).any (fun dh =>
    dh.1.decl.name = fam &&
      (if dh.1.decl.labelnames.isEmpty then labels = [] && !hasSet dh.2.single
       else dh.2.table.any (fun kh => sortByKey (dh.1.decl.labelnames.zip kh.1) = labels && !hasSet kh.2)))

/-- one sample: `none` = dropped -/
def normOne (ds : List (MDecl V)) (ns : Str → Labels → Bool) (x : Flat V) : Option (SKey × V) :=
  match declOf ds x.fam with
  | none => some ((x.name, sortByKey x.labels), x.value)
  | some d =>
    if hasCreated d.decl.kind && x.name = x.fam ++ "_created".toList then none
    else
      let ls := sortByKey (if pidMode d then x.labels.filter (fun l => l.1 ≠ "pid".toList) else x.labels)
      if isMostRecent d && ns x.fam ls then none
      else some ((x.name, ls), x.value)

def normalise (ds : List (MDecl V)) (ns : Str → Labels → Bool) (xs : List (Flat V)) : List (SKey × V) :=
  xs.filterMap (normOne ds ns)

/-- the never-set predicate of a history: read off the reference histories of the calls the in-memory run accepted -/
def neverSetOf [Val V] (ds : List (MDecl V)) (h : List (Model.Metrics.Op V)) : Str → Labels → Bool :=
  let h' := h.map (front ds)
  neverSet ds (Spec.Metrics.history (ds.map (·.decl)) (Model.Metrics.accepted (regFresh ds) h'))

end PromVerif.Spec.Backends
