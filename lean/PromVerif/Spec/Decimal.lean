/-
Specification side of C13: the exact rational meaning of a decimal numeral (no floats), and Go's
canonical spelling of large positive values.
-/
import PromVerif.Py.Str

namespace PromVerif.Spec
open PromVerif.Py

/-- a decimal number `(-1)^neg * m * 10^e` -/
structure Dec where
  neg : Bool
  m : Nat
  e : Int
deriving Repr, DecidableEq

/-- two decimals denote the same rational -/
def Dec.eqv (a b : Dec) : Prop :=
  a.neg = b.neg ∧ ∃ k : Nat, (a.e = b.e + k ∧ b.m = a.m * 10 ^ k) ∨ (b.e = a.e + k ∧ a.m = b.m * 10 ^ k)

def allDigits (s : List Char) : Bool := s.all isDigit

/-- a non-empty digit string -/
def parseNat? (s : List Char) : Option Nat :=
  if s ≠ [] ∧ allDigits s then some (parseDigits s) else none

/-- the exponent part after `e`: `[+-]?D+` -/
def parseExp? : List Char → Option Int
  | '+' :: t => (parseNat? t).map Int.ofNat
  | '-' :: t => (parseNat? t).map (fun n => - Int.ofNat n)
  | t => (parseNat? t).map Int.ofNat

/-- the fraction part after `.`: absent, or non-empty -/
def fracOf : Option (List Char) → Option (List Char)
  | none => some []
  | some [] => none
  | some f => some f

def expOf : Option (List Char) → Option Int
  | none => some 0
  | some t => parseExp? t

/-- meaning of an unsigned `D+[.D+][e[+-]D+]` -/
def denoteBody (neg : Bool) (body : List Char) : Option Dec :=
  match fracOf (splitFirst '.' (splitFirst 'e' body).1).2 with
  | none => none
  | some f =>
    match parseNat? (splitFirst '.' (splitFirst 'e' body).1).1,
          parseNat? ((splitFirst '.' (splitFirst 'e' body).1).1 ++ f),
          expOf (splitFirst 'e' body).2 with
    | some _, some m, some e => some ⟨neg, m, e - f.length⟩
    | _, _, _ => none

/-- meaning of `[-]D+[.D+][e[+-]D+]` -/
def denote : List Char → Option Dec
  | '-' :: t => denoteBody true t
  | s => denoteBody false s

theorem denote_of_head {c : Char} {t : List Char} (h : c ≠ '-') : denote (c :: t) = denoteBody false (c :: t) := by
  unfold denote
  split
  · next heq => simp at heq; exact absurd heq.1 h
  · rfl

/-- strip trailing zeros -/
def stripZeros (s : List Char) : List Char := rstripSet (· == '0') s

/-- exponent with at least two digits -/
def exp2 (n : Nat) : List Char := if n < 10 then ['0', digitChar n] else decDigits n

/-- Go's `%g`-style spelling of the positive number whose digits are `i0 :: rest` with `n` digits after
the first integer digit before the decimal point: shortest mantissa, explicit sign, two-digit-minimum
exponent. -/
def goFormat (i0 : Char) (rest : List Char) (n : Nat) : List Char :=
  let frac := stripZeros rest
  (if frac = [] then [i0] else i0 :: '.' :: frac) ++ ['e', '+'] ++ exp2 n

/-- `D(.D*[1-9])?e+DD+` -/
def GoCanonical (s : List Char) : Prop :=
  ∃ (i0 : Char) (frac ex : List Char),
    isDigit i0 = true ∧ i0 ≠ '0' ∧ allDigits frac = true ∧ frac.getLast? ≠ some '0' ∧
    allDigits ex = true ∧ 2 ≤ ex.length ∧ (ex.length = 2 ∨ ex.head? ≠ some '0') ∧
    s = (if frac = [] then [i0] else i0 :: '.' :: frac) ++ ['e', '+'] ++ ex

end PromVerif.Spec
