/-
Specification of multiprocess collection (C08) and of the writer's bookkeeping under identity changes (C09),
written from the property text, not from the code.

C08.  The input is what the worker processes left on disk: per process and per metric type (and gauge mode) one file,
identified by `(typ, mode, pid)`, holding `(key, value, set-time)` in insertion order.  A *contribution* is one such
entry together with the identity of the file it comes from.  For one metric family:

* counter, summary and the un-bucketed histogram series: per `(sample name, labels)` the sum (left fold of `add` from
  zero) over ALL contributions in listing order — dead processes' files are still listed, so they are included;
* histogram buckets: per label set without `le`, the contributions are merged per parsed bound (sum), the bounds are put
  in increasing order and made cumulative; `_count` is the total, i.e. the value of the greatest bucket (`+Inf`);
* gauges: `all`/`liveall` one series per pid (label `pid` appended) holding that process's value; `min`/`max`/`sum`
  the extremum / sum over the contributing processes; `mostrecent` a value whose set-time is maximal and non-zero
  (absent when never set);  `live*` modes range over the files left after `mark_process_dead`.
Help text and type are those every contribution of the family carries (the first one is taken).

The executable aggregates (`aggSum`, `aggPick`, `aggMostRecent`, `cumulate`) come with declarative characterisations
(`IsMinimal`, `IsMostRecent`, …) proved in `Lemmas/MultiprocessSpec.lean` under the order laws they need.
-/
import PromVerif.Model.Multiprocess

namespace PromVerif.Spec.Multiprocess
open PromVerif.Py
open PromVerif.Model.Multiprocess

set_option autoImplicit false

/-! ### input: files identified by (typ, mode, pid) -/

structure SFile (V : Type) where
  typ : Str
  /-- gauge mode; ignored for other types -/
  mode : Str
  pid : Str
  entries : List (Key × V × V)

/-- one entry together with the identity of the file it was read from -/
structure Contrib (V : Type) where
  typ : Str
  mode : Str
  pid : Str
  key : Key
  value : V
  ts : V

def contribsOf {V : Type} (f : SFile V) : List (Contrib V) :=
  f.entries.map (fun e => ⟨f.typ, f.mode, f.pid, e.1, e.2.1, e.2.2⟩)

/-- every contribution in listing order (file order, then entry order) -/
def allContribs {V : Type} (fs : List (SFile V)) : List (Contrib V) := fs.flatMap contribsOf

/-- the contributions to family `mn` -/
def contribs {V : Type} (fs : List (SFile V)) (mn : Str) : List (Contrib V) :=
  (allContribs fs).filter (fun c => c.key.metric = mn)

/-- first occurrences, in order -/
def distinct {α : Type} [DecidableEq α] (l : List α) : List α :=
  l.foldl (fun acc a => if a ∈ acc then acc else acc ++ [a]) []

def families {V : Type} (fs : List (SFile V)) : List Str := distinct ((allContribs fs).map (·.key.metric))

def helpOf {V : Type} (fs : List (SFile V)) (mn : Str) : Str := ((contribs fs mn).head?.map (·.key.help)).getD []
def typOf {V : Type} (fs : List (SFile V)) (mn : Str) : Str := ((contribs fs mn).head?.map (·.typ)).getD []
def modeOf {V : Type} (fs : List (SFile V)) (mn : Str) : Str := ((contribs fs mn).head?.map (·.mode)).getD []

/-! ### aggregates -/

/-- sum in listing order -/
def aggSum {V : Type} (vo : VOps V) (vs : List V) : V := vs.foldl vo.add vo.zero

/-- running choice: a later value replaces the current one when it is strictly `better` -/
def aggPick {V : Type} (better : V → V → Bool) : List V → Option V
  | [] => none
  | v :: r => some (r.foldl (fun c x => if better x c then x else c) v)

def aggMin {V : Type} (vo : VOps V) : List V → Option V := aggPick vo.lt
def aggMax {V : Type} (vo : VOps V) : List V → Option V := aggPick (fun x c => vo.lt c x)

/-- the value held by the last writer (one entry per process and series) -/
def aggLast {V : Type} (vs : List V) : Option V := vs.getLast?

/-- a set-time of zero (either sign) means "never set with a time" -/
def normTs {V : Type} (vo : VOps V) (t : V) : V := if vo.truthy t then t else vo.zero

/-- most recent: scan `(value, set-time)`, keep a value whenever its time is strictly later than the latest so far
    (starting from time zero, so entries never set are skipped) -/
def aggMostRecent {V : Type} (vo : VOps V) (xs : List (V × V)) : Option V :=
  (xs.foldl (fun (st : Option V × V) x =>
      let t := normTs vo x.2
      if vo.lt st.2 t then (some x.1, t) else st) (none, vo.zero)).1

/-- `r` is a least element of `vs` -/
def IsMinimal {V : Type} (lt : V → V → Bool) (vs : List V) (r : V) : Prop := r ∈ vs ∧ ∀ v ∈ vs, lt v r = false
/-- `r` is a greatest element of `vs` -/
def IsMaximal {V : Type} (lt : V → V → Bool) (vs : List V) (r : V) : Prop := r ∈ vs ∧ ∀ v ∈ vs, lt r v = false
/-- `r` was set at a non-zero time that no other set-time exceeds -/
def IsMostRecent {V : Type} (vo : VOps V) (xs : List (V × V)) (r : V) : Prop :=
  ∃ x ∈ xs, x.1 = r ∧ vo.lt vo.zero (normTs vo x.2) = true ∧ ∀ y ∈ xs, vo.lt (normTs vo x.2) (normTs vo y.2) = false

/-! ### series of one family -/

/-- what the property distinguishes -/
inductive Kind | plainSum | histogram | gaugeAll | gaugeMin | gaugeMax | gaugeSum | gaugeMostRecent
deriving DecidableEq, Repr

def kindOf (typ mode : Str) : Kind :=
  if typ = "gauge".toList then
    if mode = "min".toList ∨ mode = "livemin".toList then .gaugeMin
    else if mode = "max".toList ∨ mode = "livemax".toList then .gaugeMax
    else if mode = "sum".toList ∨ mode = "livesum".toList then .gaugeSum
    else if mode = "mostrecent".toList ∨ mode = "livemostrecent".toList then .gaugeMostRecent
    else .gaugeAll
  else if typ = "histogram".toList then .histogram
  else .plainSum

def plainKey {V : Type} (c : Contrib V) : SKey := (c.key.name, c.key.labels)
def pidKey {V : Type} (c : Contrib V) : SKey := (c.key.name, c.key.labels ++ [("pid".toList, c.pid)])

/-- values contributed to series `k` under the keying `kf` -/
def valuesFor {V : Type} (kf : Contrib V → SKey) (cs : List (Contrib V)) (k : SKey) : List V :=
  (cs.filter (fun c => kf c = k)).map (·.value)

def sumValue {V : Type} (vo : VOps V) (cs : List (Contrib V)) (k : SKey) : Option V :=
  match valuesFor plainKey cs k with
  | [] => none
  | vs => some (aggSum vo vs)

def gaugeValue {V : Type} (vo : VOps V) (kind : Kind) (cs : List (Contrib V)) (k : SKey) : Option V :=
  match kind with
  | .gaugeMin => aggMin vo (valuesFor plainKey cs k)
  | .gaugeMax => aggMax vo (valuesFor plainKey cs k)
  | .gaugeSum => sumValue vo cs k
  | .gaugeMostRecent => aggMostRecent vo ((cs.filter (fun c => plainKey c = k)).map (fun c => (c.value, c.ts)))
  | _ => aggLast (valuesFor pidKey cs k)

/-! histogram -/

def leText {V : Type} (c : Contrib V) : Option Str := (c.key.labels.find? (fun l => l.1 = "le".toList)).map (·.2)
def withoutLe {V : Type} (c : Contrib V) : Labels := c.key.labels.filter (fun l => l.1 ≠ "le".toList)

/-- bucket contributions as (labels without `le`, parsed bound, value); un-parsable bounds are outside the spec -/
def bucketContribs {V B : Type} (bo : BOps B) (cs : List (Contrib V)) : List (Labels × B × V) :=
  cs.filterMap (fun c => match leText c with
    | some t => (bo.parse t).map (fun b => (withoutLe c, b, c.value))
    | none => none)

def plainContribs {V : Type} (cs : List (Contrib V)) : List (Contrib V) := cs.filter (fun c => (leText c).isNone)

def groups {V B : Type} [DecidableEq B] (bcs : List (Labels × B × V)) : List Labels := distinct (bcs.map (·.1))
def boundsOf {V B : Type} [DecidableEq B] (bcs : List (Labels × B × V)) (L : Labels) : List B :=
  distinct ((bcs.filter (fun x => x.1 = L)).map (·.2.1))
/-- merged per bound: the sum over all processes of the bucket `(L, b)` -/
def merged {V B : Type} [DecidableEq B] (vo : VOps V) (bcs : List (Labels × B × V)) (L : Labels) (b : B) : V :=
  aggSum vo ((bcs.filter (fun x => x.1 = L ∧ x.2.1 = b)).map (·.2.2))

/-- insertion sort by `lt` -/
def insertBound {B : Type} (lt : B → B → Bool) (x : B) : List B → List B
  | [] => [x]
  | y :: ys => if lt y x then y :: insertBound lt x ys else x :: y :: ys
def sortBounds {B : Type} (lt : B → B → Bool) (l : List B) : List B := l.foldr (insertBound lt) []

/-- running totals -/
def cumulate {V B : Type} (vo : VOps V) : V → List (B × V) → List (B × V)
  | _, [] => []
  | acc, (b, v) :: r => (b, vo.add acc v) :: cumulate vo (vo.add acc v) r

/-- bounds of group `L` in increasing order with the merged (non-cumulative) counts -/
def mergedSorted {V B : Type} [DecidableEq B] (vo : VOps V) (bo : BOps B) (bcs : List (Labels × B × V)) (L : Labels) :
    List (B × V) :=
  (sortBounds bo.lt (boundsOf bcs L)).map (fun b => (b, merged vo bcs L b))

/-- `_count` of group `L`: the total, which is also the last cumulative bucket -/
def countOf {V B : Type} [DecidableEq B] (vo : VOps V) (bo : BOps B) (bcs : List (Labels × B × V)) (L : Labels) : V :=
  aggSum vo ((mergedSorted vo bo bcs L).map (·.2))

/-- the bucket and `_count` series of group `L` -/
def groupSeries {V B : Type} [DecidableEq B] (vo : VOps V) (bo : BOps B) (mn : Str) (bcs : List (Labels × B × V))
    (L : Labels) : List (SKey × V) :=
  (cumulate vo vo.zero (mergedSorted vo bo bcs L)).map
      (fun bv => ((mn ++ "_bucket".toList, L ++ [("le".toList, bo.fmt bv.1)]), bv.2))
    ++ [((mn ++ "_count".toList, L), countOf vo bo bcs L)]

def bucketSeries {V B : Type} [DecidableEq B] (vo : VOps V) (bo : BOps B) (mn : Str) (cs : List (Contrib V)) :
    List (SKey × V) :=
  let bcs := bucketContribs bo cs
  (groups bcs).flatMap (groupSeries vo bo mn bcs)

def histValue {V B : Type} [DecidableEq B] (vo : VOps V) (bo : BOps B) (mn : Str) (cs : List (Contrib V)) (k : SKey) :
    Option V :=
  match AL.get? (bucketSeries vo bo mn cs) k with
  | some v => some v
  | none => sumValue vo (plainContribs cs) k

/-- the value the collector must report for series `k` of family `mn` (`none`: no such series) -/
def value {V B : Type} [DecidableEq B] (vo : VOps V) (bo : BOps B) (fs : List (SFile V)) (mn : Str) (k : SKey) : Option V :=
  let cs := contribs fs mn
  match kindOf (typOf fs mn) (modeOf fs mn) with
  | .plainSum => sumValue vo cs k
  | .histogram => histValue vo bo mn cs k
  | kind => gaugeValue vo kind cs k

/-- candidate series keys of family `mn` (every key with a value is among them) -/
def candidateKeys {V B : Type} [DecidableEq B] (vo : VOps V) (bo : BOps B) (fs : List (SFile V)) (mn : Str) : List SKey :=
  let cs := contribs fs mn
  match kindOf (typOf fs mn) (modeOf fs mn) with
  | .gaugeAll => distinct (cs.map pidKey)
  | .histogram => distinct ((plainContribs cs).map plainKey ++ (bucketSeries vo bo mn cs).map (·.1))
  | _ => distinct (cs.map plainKey)

/-- the families with their series, as the spec lists them (order is not part of the property) -/
def collect {V B : Type} [DecidableEq B] (vo : VOps V) (bo : BOps B) (fs : List (SFile V)) :
    List (Str × Str × Str × List (SKey × V)) :=
  (families fs).map (fun mn =>
    (mn, helpOf fs mn, typOf fs mn,
      (candidateKeys vo bo fs mn).filterMap (fun k => (value vo bo fs mn k).map (fun v => (k, v)))))

/-- the listing after `mark_process_dead pid`: live-mode gauge files of that pid are gone, everything else stays -/
def afterDeath {V : Type} (pid : Str) (fs : List (SFile V)) : List (SFile V) :=
  fs.filter (fun f => !(f.typ = "gauge".toList && "live".toList.isPrefixOf f.mode && f.pid = pid))

/-! ### C09: what a history asked for -/

/-- an update request as the property sees it: under which identity, to which series, what -/
inductive Upd (V : Type)
  | inc (pid : Str) (amount : V)
  | set (pid : Str) (value : V) (ts : V)

/-- all increments, in history order -/
def incTotal {V : Type} (vo : VOps V) (us : List (Upd V)) : V :=
  us.foldl (fun acc u => match u with | .inc _ a => vo.add acc a | .set _ _ _ => acc) vo.zero

/-- what identity `p` last left in its own cell: fold of its own updates from zero -/
def ownCell {V : Type} (vo : VOps V) (p : Str) (us : List (Upd V)) : V × V :=
  us.foldl (fun cell u => match u with
    | .inc q a => if q = p then (vo.add cell.1 a, vo.zero) else cell
    | .set q v t => if q = p then (v, t) else cell) (vo.zero, vo.zero)

end PromVerif.Spec.Multiprocess
