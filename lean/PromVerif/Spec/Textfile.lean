/-
Spec of C18, written from the property text (not from the code).

"the target path holds either its complete previous content or the complete new exposition, never a partial or empty
file" — `old` is `none` when there was no target before the call.  Note that the statement is about *being* one of the
two complete contents: when the new exposition happens to be empty, or equal to a prefix of itself, the empty / short
file IS the complete new exposition.
-/
namespace PromVerif.Spec.Textfile

/-- what a reader of the target may see at any instant of one call -/
def OldOrNew {α : Type} (old : Option α) (new : α) (seen : Option α) : Prop :=
  seen = old ∨ seen = some new

/-- what a reader may see at any instant of two concurrent calls -/
def OldOrNew2 {α : Type} (old : Option α) (new1 new2 : α) (seen : Option α) : Prop :=
  seen = old ∨ seen = some new1 ∨ seen = some new2

/-- after two completed concurrent calls one complete exposition is installed -/
def OneInstalled {α : Type} (new1 new2 : α) (seen : Option α) : Prop :=
  seen = some new1 ∨ seen = some new2

/-- the target after a call that returned (`raised = false`) or raised -/
def finalTarget {α : Type} (old : Option α) (new : α) (raised : Bool) : Option α :=
  if raised then old else some new

/-- executable form of `OldOrNew` for the driver -/
def oldOrNewB {α : Type} [DecidableEq α] (old : Option α) (new : α) (seen : Option α) : Bool :=
  decide (seen = old) || decide (seen = some new)

theorem oldOrNewB_iff {α : Type} [DecidableEq α] (old : Option α) (new : α) (seen : Option α) :
    oldOrNewB old new seen = true ↔ OldOrNew old new seen := by
  simp [oldOrNewB, OldOrNew]

end PromVerif.Spec.Textfile
