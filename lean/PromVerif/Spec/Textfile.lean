/-
Spec of C18, written from the property text (not from the code).

"the target path holds either its complete previous content or the complete new exposition, never a partial or empty
file" — `old` is `none` when there was no target before the call.  Note that the statement is about *being* one of the
two complete contents: when the new exposition happens to be empty, or equal to a prefix of itself, the empty / short
file IS the complete new exposition.
-/
import PromVerif.Generated.Textfile

namespace PromVerif.Spec.Textfile
open PromVerif.Generated.Textfile

/-! ### what the property demands of the function's effect skeleton

"write the whole exposition to a private temporary file, then rename over the target; on any exception remove the
temporary file and re-raise" -/

/-- the `try` body: open the TEMPORARY path for (truncating, binary) writing, produce the exposition, write it through
that handle, close it — in this order, nothing else — and, as the LAST effect, rename temporary → target.  Hence no
effect before the rename names the target, and nothing after the rename can fail and leave the target half-done. -/
def bodyOk (b : List Sk) : Bool :=
  b.dropLast == [.openWith .tmp ['w', 'b'], .generate, .writeData, .endWith] &&
  b.getLast? == some (.rename .tmp .target)

/-- no effect before the final rename names the target (implied by `bodyOk`; stated on its own because it is the
condition the measured mutation "also write the exposition straight to the target" breaks) -/
def namesTarget : Sk → Bool
  | .openWith p _ => p != .tmp
  | .rename s d => s != .tmp || d != .tmp
  | .removeIfExists t q => t != .tmp || q != .tmp
  | .remove p => p != .tmp
  | _ => false

def noTargetBeforeRename (b : List Sk) : Bool := b.dropLast.all (fun s => !namesTarget s)

/-- the handler catches every `Exception`, removes exactly the temporary file when it exists, and re-raises -/
def handlerOk (caught : List Char) (h : List Sk) : Bool :=
  caught == "Exception".toList && h == [.removeIfExists .tmp .tmp, .reraise]

/-- the temporary name is the target followed by a non-empty suffix that contains the pid and the thread ident, and
nothing the model does not know.  The pid must be the LIVE one (`.pid`: `os.getpid()` evaluated in the call); a value
cached at import (`.cachedPid`) is the same in a process and the children it forks, so it does not make the name
"unique per concurrent writer". -/
def tmpPartsOk (parts : List TmpPart) : Bool :=
  (match parts with
   | .path :: .lit s :: _ => !s.isEmpty
   | _ => false) &&
  parts.contains .pid && parts.contains .threadIdent &&
  parts.all (fun p => match p with | .other _ => false | _ => true)

def wellformed : Bool :=
  bodyOk tryBody && noTargetBeforeRename tryBody && handlerOk caughtClass handler && tmpPartsOk tmpPathParts

/-- what a reader of the target may see at any instant of one call -/
def OldOrNew {α : Type} (old : Option α) (new : α) (seen : Option α) : Prop :=
  seen = old ∨ seen = some new

/-- what a reader may see at any instant of two concurrent calls -/
def OldOrNew2 {α : Type} (old : Option α) (new1 new2 : α) (seen : Option α) : Prop :=
  seen = old ∨ seen = some new1 ∨ seen = some new2

/-- after two completed concurrent calls one complete exposition is installed -/
def OneInstalled {α : Type} (new1 new2 : α) (seen : Option α) : Prop :=
  seen = some new1 ∨ seen = some new2

/-- the target after a call that returned (`raised = false`) or raised -/
def finalTarget {α : Type} (old : Option α) (new : α) (raised : Bool) : Option α :=
  if raised then old else some new

/-- executable form of `OldOrNew` for the driver -/
def oldOrNewB {α : Type} [DecidableEq α] (old : Option α) (new : α) (seen : Option α) : Bool :=
  decide (seen = old) || decide (seen = some new)

theorem oldOrNewB_iff {α : Type} [DecidableEq α] (old : Option α) (new : α) (seen : Option α) :
    oldOrNewB old new seen = true ↔ OldOrNew old new seen := by
  simp [oldOrNewB, OldOrNew]

end PromVerif.Spec.Textfile
