/-
C01 — the plain reference model of the property text, indexed by HISTORIES (no accumulators):

  for every series, the list of accepted calls since the child was last created; the exposed values are read off
  that list:
    counter total   = left-to-right sum of the accepted amounts (since the last reset)
    summary _sum    = left-to-right sum of the observed amounts, _count = their number
    histogram le=b  = number of observations o with o <= b (cumulative by definition); _count = the +Inf bucket
    gauge           = its operations applied in order
    enum            = exactly its current (last accepted) state at 1
    info            = the last accepted dict

  positional, keyword (declaration order) and non-string label values are stringified into the child key;
  remove/clear delete the addressed children, which restart from an empty history when addressed again.

`record` consumes calls that were ACCEPTED (Model.Metrics.accepted); it never looks at an accumulator.
-/
import PromVerif.Model.Metrics

namespace PromVerif.Spec.Metrics
open PromVerif.Py
open PromVerif.Model.Metrics

/-- the value passed by keyword for the label name `l` (stringified) -/
def kwValue (kw : List (Str × PyVal)) (l : Str) : Str :=
  match kw.find? (fun kv => kv.1 = l) with
  | some kv => pyStr kv.2
  | none => []

/-- the child a call addresses: the tuple of stringified values, keyword values in DECLARATION order -/
def keyOf (labelnames : List Str) : Addr → Option (List Str)
  | .none => none
  | .labels args kw =>
    if kw.isEmpty then some (args.map pyStr)
    else some (labelnames.map (kwValue kw))

/-- per metric: the accepted calls on the metric object itself, and per live child (in creation order) the accepted
calls since it was last created -/
structure Hist (V : Type) where
  single : List (Action V)
  table : List (List Str × List (Action V))

def Hist.empty {V : Type} : Hist V := ⟨[], []⟩

def appendAt {V : Type} (k : List Str) (a : Action V) :
    List (List Str × List (Action V)) → List (List Str × List (Action V))
  | [] => [(k, [a])]                                   -- a new child starts from an empty history
  | kh :: t => if kh.1 = k then (kh.1, kh.2 ++ [a]) :: t else kh :: appendAt k a t

def recordOn {V : Type} (labelnames : List Str) (h : Hist V) : Op V → Hist V
  | .call _ addr act =>
    match keyOf labelnames addr with
    | none => { h with single := h.single ++ [act] }
    | some k => { h with table := appendAt k act h.table }
  | .remove _ vs => { h with table := h.table.filter (fun kh => kh.1 ≠ vs.map pyStr) }
  | .clear _ => { h with table := [] }

def modifyNth {α : Type} (f : α → α) : Nat → List α → List α
  | _, [] => []
  | 0, x :: xs => f x :: xs
  | n + 1, x :: xs => x :: modifyNth f n xs

def record {V : Type} (decls : List (Decl V)) (hs : List (Hist V)) (op : Op V) : List (Hist V) :=
  match decls[op.metric]? with
  | none => hs
  | some d => modifyNth (fun h => recordOn d.labelnames h op) op.metric hs

/-- the histories after a list of accepted calls -/
def history {V : Type} (decls : List (Decl V)) (ops : List (Op V)) : List (Hist V) :=
  ops.foldl (record decls) (decls.map (fun _ => Hist.empty))

/-! ### values read off a history -/

/-- the counter amounts since the last reset -/
def amountsSinceReset {V : Type} (acts : List (Action V)) : List V :=
  acts.foldl (fun acc a => match a with
    | .reset => []
    | .inc x => acc ++ [x]
    | _ => acc) []

def sumOf {V : Type} [Val V] (xs : List V) : V := xs.foldl Val.add Val.zero

def counterTotal {V : Type} [Val V] (acts : List (Action V)) : V := sumOf (amountsSinceReset acts)

def gaugeOp {V : Type} [Val V] (v : V) : Action V → V
  | .inc x => Val.add v x
  | .dec x => Val.add v (Val.neg x)
  | .set x => x
  | _ => v

def gaugeValue {V : Type} [Val V] (acts : List (Action V)) : V := acts.foldl gaugeOp Val.zero

def observations {V : Type} (acts : List (Action V)) : List V :=
  acts.filterMap (fun a => match a with
    | .observe x => some x
    | _ => none)

/-- the bucket `le = b`: the NUMBER of observations `o` with `o <= b` -/
def bucketCount {V : Type} [Val V] (obs : List V) (b : V) : Nat := obs.countP (fun o => Val.le o b)

/-- `_sum` is exposed unless the first bound is negative (a sum of possibly negative observations is no counter) -/
def sumShown {V : Type} [Val V] (bounds : List V) : Bool :=
  match bounds.head? with
  | some b => Val.le Val.zero b
  | none => false

def lastInfo {V : Type} (acts : List (Action V)) : List (Str × Str) :=
  acts.foldl (fun cur a => match a with
    | .info val => val.filterMap (fun kv => kv.2.map (fun v => (kv.1, v)))
    | _ => cur) []

/-- the last accepted state, initially the first listed one -/
def currentState {V : Type} (states : List Str) (acts : List (Action V)) : Option Str :=
  acts.foldl (fun cur a => match a with
    | .state s => some s
    | _ => cur) states.head?

def seriesSamples {V : Type} [Val V] (d : Decl V) (acts : List (Action V)) : List (Sample V) :=
  match d.kind with
  | .counter => [⟨"_total".toList, [], counterTotal acts⟩]
  | .gauge => [⟨[], [], gaugeValue acts⟩]
  | .summary =>
    [⟨"_count".toList, [], Val.ofNat (observations acts).length⟩, ⟨"_sum".toList, [], sumOf (observations acts)⟩]
  | .histogram bs =>
    let obs := observations acts
    bs.map (fun b => ⟨"_bucket".toList, leLabel b.2, Val.ofNat (bucketCount obs b.1)⟩)
      ++ [⟨"_count".toList, [], match bs.getLast? with
            | some b => Val.ofNat (bucketCount obs b.1)
            | none => Val.zero⟩]
      ++ (if sumShown (bs.map (·.1)) then [⟨"_sum".toList, [], sumOf obs⟩] else [])
  | .info => [⟨"_info".toList, lastInfo acts, Val.one⟩]
  | .enum states =>
    states.map (fun s => ⟨[], [(d.name, s)], if some s = currentState states acts then Val.one else Val.zero⟩)

def metricSamples {V : Type} [Val V] (d : Decl V) (h : Hist V) : List (Sample V) :=
  let raw :=
    if !d.labelnames.isEmpty then
      h.table.flatMap (fun kh =>
        (seriesSamples d kh.2).map (fun s => { s with labels := d.labelnames.zip kh.1 ++ s.labels }))
    else seriesSamples d h.single
  raw.map (fun s => { s with name := d.name ++ s.name })

def collectHist {V : Type} [Val V] (decls : List (Decl V)) (hs : List (Hist V)) : List (List (Sample V)) :=
  (decls.zip hs).map (fun dh => metricSamples dh.1 dh.2)

/-- what the reference predicts after the accepted calls `ops` on freshly constructed metrics `decls` -/
def collect {V : Type} [Val V] (decls : List (Decl V)) (ops : List (Op V)) : List (List (Sample V)) :=
  collectHist decls (history decls ops)

end PromVerif.Spec.Metrics
