/-
Spec for C16, written from the property text, not from context_managers.py.

* what callers observe is what the *undecorated* program does: `outcomeCall` ignores every wrapper;
* "one observation per call": `timedCall m c` counts how often a callable timed on metric `m` is entered
  while the program `c` runs (a nested call that is never reached — an earlier sibling raised and the body did
  not swallow it — is not counted; `n` levels of recursion are `n + 1` calls);
* "the exception counter up by one exactly when an exception of the configured types escapes":
  `escCall k c` counts the calls guarded by counter `k` out of which an instance of the configured classes
  escapes;
* the ideal duration: `max(exit reading − enter reading, 0)`.
-/
import PromVerif.Model.Wrappers

namespace PromVerif.Spec.Wrappers
open PromVerif.Model.Wrappers

mutual
  /-- outcome of the program with every wrapper removed -/
  def outcomeCall : Call → Outcome
    | .mk _ b => outcomeBody b
  def outcomeBody : Body → Outcome
    | .out o => o
    | .nest cs swallow o => outcomeSeq cs swallow o
    | .recurse _ o => o
  def outcomeSeq : Calls → Bool → Outcome → Outcome
    | .nil, _, o => o
    | .cons c cs, swallow, o =>
      if continues (outcomeCall c) swallow then outcomeSeq cs swallow o else outcomeCall c
end

/-- number of `time` wrappers on metric `m` (either callback) in a stack -/
def timeOn (m : Nat) (k : TimeKind) : List Wrapper → Nat
  | [] => 0
  | .time m' k' _ :: ws => (if m' = m ∧ k' = k then 1 else 0) + timeOn m k ws
  | _ :: ws => timeOn m k ws

mutual
  /-- calls of callables timed on `(m, k)` made while the program runs -/
  def timedCall (m : Nat) (k : TimeKind) : Call → Nat
    | .mk ws b => timeOn m k ws + timedBody m k ws b
  def timedBody (m : Nat) (k : TimeKind) (ws : List Wrapper) : Body → Nat
    | .out _ => 0
    | .nest cs swallow _ => timedSeq m k cs swallow
    | .recurse n _ => n * timeOn m k ws
  def timedSeq (m : Nat) (k : TimeKind) : Calls → Bool → Nat
    | .nil, _ => 0
    | .cons c cs, swallow =>
      timedCall m k c + (if continues (outcomeCall c) swallow then timedSeq m k cs swallow else 0)
end

/-- "an exception of the configured types escapes" -/
def escapes (classes : List ExcClass) : Outcome → Bool
  | .raise e => classes.any (fun d => e.cls.mro.contains d)
  | .ret _ => false

/-- exception-counting wrappers on counter `c` in a stack that see an escaping instance -/
def escOn (c : Nat) (o : Outcome) : List Wrapper → Nat
  | [] => 0
  | .countExc c' classes :: ws => (if c' = c ∧ escapes classes o then 1 else 0) + escOn c o ws
  | _ :: ws => escOn c o ws

mutual
  def escCall (k : Nat) : Call → Nat
    | .mk ws b => escOn k (outcomeBody b) ws + escBody k ws b
  def escBody (k : Nat) (ws : List Wrapper) : Body → Nat
    | .out _ => 0
    | .nest cs swallow _ => escSeq k cs swallow
    | .recurse n o => n * escOn k o ws
  def escSeq (k : Nat) : Calls → Bool → Nat
    | .nil, _ => 0
    | .cons c cs, swallow =>
      escCall k c + (if continues (outcomeCall c) swallow then escSeq k cs swallow else 0)
end

/-- does a stack contain `gauge.time()` on gauge `g`?  (`set(duration)` overwrites the gauge: a gauge used
both for `track_inprogress` and `time` is outside the property) -/
def setsOn (g : Nat) : List Wrapper → Bool
  | [] => false
  | .time m .set _ :: ws => decide (m = g) || setsOn g ws
  | _ :: ws => setsOn g ws

mutual
  def setsCall (g : Nat) : Call → Bool
    | .mk ws b => setsOn g ws || setsBody g b
  def setsBody (g : Nat) : Body → Bool
    | .out _ => false
    | .nest cs _ _ => setsSeq g cs
    | .recurse _ _ => false
  def setsSeq (g : Nat) : Calls → Bool
    | .nil => false
    | .cons c cs => setsCall g c || setsSeq g cs
end

/-- the duration the property promises -/
def idealDuration (enter exit : Int) : Int := max (exit - enter) 0

/-- a keyword of the call names a positional-only parameter (PEP 570 lets `**kw` capture it) -/
def NoPosOnlyKwClash (s : ArgSpec) (ca : CallArgs) : Prop := ∀ kv ∈ ca.kw, kv.1 ∉ s.posonly

instance (s : ArgSpec) (ca : CallArgs) : Decidable (NoPosOnlyKwClash s ca) := by
  unfold NoPosOnlyKwClash; infer_instance

/-- distinct parameter names (a `SyntaxError` otherwise) -/
def WF (s : ArgSpec) : Prop := (s.posonly ++ s.pos ++ s.kwonly).Nodup

end PromVerif.Spec.Wrappers
